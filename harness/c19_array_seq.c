/* C19 (sequential part): growable array — stable, disjoint, zero-initialised elements */
#include "vp.h"
#include <qb/qbarray.h>
#include <errno.h>
#include <stdio.h>
#include <string.h>
#include <stdlib.h>

static const int IDX[] = { 0, 1, 15, 16, 17, 255, 256, 4095, 65535, 65536, -1, 70000 };
#define NIDX 12
static const long GROW[] = { 0, 1, 16, 17, 256, 257, 65535, 65536, 65537 };
#define NGROW 9
static const size_t ESZ[] = { 1, 24, 1000, ((size_t)-1) / 16 + 5 };    /* the last one: 16 elements of it do not fit the address space */
static const size_t INIT[] = { 0, 16, 100, 65536 };
static const size_t AUTO[] = { 0, 1, 16 };
static int depth;

static struct { int seen; char *addr; } E[NIDX];

static unsigned char pat(int idx, size_t j) { return (unsigned char)(idx * 31 + j * 7 + 1); }

static void run(void)
{
	size_t esz = ESZ[vp_choose(4, "element size")];
	int absurd = esz > ((size_t)1 << 40);
	size_t size = INIT[vp_choose(4, "initial size")];
	size_t autog = AUTO[vp_choose(3, "autogrow")];
	qb_array_t *a = qb_array_create_2(size, esz, autog);
	int step, i;
	size_t j;
	if (!a) vp_fail("create(%zu,%zu,%zu) failed", size, esz, autog);
	memset(E, 0, sizeof E);
	vp_log("create(max=%zu, elem=%zu, autogrow=%zu)", size, esz, autog);
	for (step = 0; step < depth; step++) {
		int c = vp_choose(NIDX + NGROW, "op");
		if (c < NIDX) {
			int idx = IDX[c];
			void *p = (void *)1;
			int32_t r = qb_array_index(a, idx, &p);
			vp_log("index(%d) = %d", idx, r);
			if (idx < 0 || idx >= 65536) {
				if (r >= 0) vp_fail("index(%d) succeeded although it is outside [0,65536)", idx);
				continue;
			}
			if ((size_t)idx >= size && autog == 0) {
				if (r != -ERANGE) vp_fail("index(%d) beyond size %zu without auto-grow returned %d, not -ERANGE", idx, size, r);
				continue;
			}
			if (absurd) {
				/* storage for a block of such elements cannot exist: the call has to fail, whatever it says */
				if (r == 0) vp_fail("index(%d) succeeded for elements of %zu bytes: there is no room for even one block of them (returned %p)", idx, esz, p);
				continue;
			}
			if (r != 0) vp_fail("index(%d) failed (%d) with size %zu autogrow %zu", idx, r, size, autog);
			if ((size_t)idx >= size) size = (size_t)idx + 1;
			if (E[c].seen) {
				if (E[c].addr != p) vp_fail("address of element %d changed from %p to %p", idx, (void *)E[c].addr, p);
				for (j = 0; j < esz; j++) if (((unsigned char *)p)[j] != pat(idx, j)) vp_fail("element %d lost its contents at byte %zu", idx, j);
			} else {
				for (j = 0; j < esz; j++) if (((unsigned char *)p)[j]) vp_fail("never-written element %d is not zero at byte %zu", idx, j);
				for (i = 0; i < NIDX; i++) if (E[i].seen) {
					char *q = E[i].addr;
					if ((char *)p < q + esz && q < (char *)p + esz) vp_fail("storage of elements %d and %d overlaps", idx, IDX[i]);
				}
				for (j = 0; j < esz; j++) ((unsigned char *)p)[j] = pat(idx, j);
				E[c].seen = 1; E[c].addr = p;
			}
		} else {
			long n = GROW[c - NIDX];
			int32_t r = qb_array_grow(a, (size_t)n);
			vp_log("grow(%ld) = %d", n, r);
			if (n > 65536) { if (r >= 0) vp_fail("grow(%ld) beyond the maximum succeeded", n); continue; }
			if (r != 0) vp_fail("grow(%ld) failed: %d", n, r);
			if ((size_t)n > size) size = (size_t)n;
		}
		{ uint64_t k[2] = { size, esz * 4 + autog }; uint64_t h = vp_hash(k, sizeof k, 0); for (i = 0; i < NIDX; i++) h = vp_hash(&E[i].seen, sizeof(int), h); vp_state(h); }
	}
	/* everything handed out so far must still be where it was, with its contents */
	for (i = 0; i < NIDX; i++) if (E[i].seen) {
		void *p;
		if (qb_array_index(a, IDX[i], &p) != 0 || p != E[i].addr) vp_fail("final: element %d moved or became unreachable", IDX[i]);
		for (j = 0; j < esz; j++) if (((unsigned char *)p)[j] != pat(IDX[i], j)) vp_fail("final: element %d lost its contents", IDX[i]);
	}
	vp_outcome_u64(size);
	qb_array_free(a);
}

static void init(void) { depth = (int)vp_param("depth", 4, 5); }

int main(int argc, char **argv)
{
	static struct vp_harness h = {
		.property = "C19", .name = "c19_array_seq", .level = "model_checking",
		.run = run, .init = init, .batch = 2000,
		.rule = "all histories of <= depth index/grow calls (12 boundary indices incl. -1, 65535, 65536; 9 sizes incl. 65537) for element sizes "
			"{1,24,1000, SIZE_MAX/16+5 (no block of them can exist: index must fail)} x initial sizes {0,16,100,65536} x autogrow {0,1,16} on the real qb_array; oracle: address stability, pairwise disjoint "
			"storage, zero initialisation, content persistence, error codes; states = distinct (size, handed-out set), distinct = final sizes",
		.assumptions = { "single-threaded part; interleavings are the job of c19_array_conc", NULL },
	};
	return vp_main(argc, argv, &h);
}
