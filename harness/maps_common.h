/* Shared driver + reference model for C17 (dictionary, notifiers) and C18 (iterators
 * under mutation).  Only the public qbmap.h API is used. */
#include "vp.h"
#include <qb/qbmap.h>
#include <qb/qbdefs.h>
#include <errno.h>
#include <stdio.h>
#include <string.h>
#include <stdlib.h>

#ifndef WITH_ITERS
#define WITH_ITERS 0
#endif

enum { HT, SL, TR };
static const char *typen[] = { "hashtable", "skiplist", "trie" };

#define NKEYS 8
/* two physical copies of each key: maps store the caller's pointer */
static char keytxt[2][NKEYS][48];
static const char *keyinit[NKEYS] = { "a", "ab", "abc", "ac", "b", "a\x80", "\xff",
	"a-key-that-is-forty-characters-long-0123" };
/* ascending order by strcmp (unsigned char comparison) is computed at start */
static int korder[NKEYS];
static const char *prefixes[] = { "a", "ab", "b", "x" };
#define NPREF 4

static int only_type = -1;
static int mtype, depth, nkeys_used, seeds_on, level_choices;
static qb_map_t *M;

/* ---- model ---- */
static int present[NKEYS];
static void *value[NKEYS];
static long next_val;
#define MAXVALS 64
static struct { void *v; int in_map; int freed; } vals[MAXVALS];
static int nvals;

/* notifier registrations */
enum { R_GLOBAL, R_FREE, R_KEY, R_PREFIX, NREG };
static struct reg { int on, zombie, key; int events; } R[NREG];
struct call { int reg; uint32_t ev; char key[48]; void *oldv, *newv; };
#define MAXCALLS 64
static struct call calls[MAXCALLS];
static int ncalls;
static int destroying;

static void *newval(void)
{
	void *v = (void *)(uintptr_t)(0x100000 + 16 * (++next_val));
	if (nvals >= MAXVALS) vp_broken("too many values");
	vals[nvals].v = v; vals[nvals].in_map = 1; vals[nvals].freed = 0; nvals++;
	return v;
}
static int valid(void *v) { int i; for (i = 0; i < nvals; i++) if (vals[i].v == v) return i; return -1; }

static void notify_cb(uint32_t event, char *key, void *old_value, void *val, void *user_data)
{
	struct call *c;
	if (ncalls >= MAXCALLS) vp_fail("notifier called more than %d times in one operation", MAXCALLS);
	c = &calls[ncalls++];
	c->reg = (int)(intptr_t)user_data;
	c->ev = event;
	snprintf(c->key, sizeof c->key, "%s", key ? key : "(null)");
	c->oldv = old_value; c->newv = val;
}

static int key_of(const char *s)
{
	int i;
	for (i = 0; i < NKEYS; i++) if (!strcmp(s, keyinit[i])) return i;
	return -1;
}
static const char *kname(int k)
{
	static char b[4][64]; static int r;
	char *o = b[r++ & 3];
	const unsigned char *s = (const unsigned char *)keyinit[k];
	int n = 0;
	for (; *s && n < 56; s++) n += (*s >= 0x20 && *s < 0x7f) ? sprintf(o + n, "%c", *s) : sprintf(o + n, "\\x%02x", *s);
	o[n] = 0;
	return o;
}

/* how many times is registration r expected to be called with (ev,key,old,new)?  returns min,max */
struct expect { int reg; uint32_t ev; int key; void *oldv, *newv; int min, max, got; };
static struct expect ex[32];
static int nex;
static void expect_add(int reg, uint32_t ev, int key, void *oldv, void *newv, int min, int max)
{
	ex[nex].reg = reg; ex[nex].ev = ev; ex[nex].key = key; ex[nex].oldv = oldv; ex[nex].newv = newv;
	ex[nex].min = min; ex[nex].max = max; ex[nex].got = 0; nex++;
}
static int has_prefix(int k, int p) { return strncmp(keyinit[k], prefixes[p], strlen(prefixes[p])) == 0; }

static void expect_event(uint32_t ev, int k, void *oldv, void *newv, int optional)
{
	int min = optional ? 0 : 1;
	if (R[R_GLOBAL].on && (R[R_GLOBAL].events & ev)) expect_add(R_GLOBAL, ev, k, oldv, newv, min, 1);
	if (R[R_KEY].on && R[R_KEY].key == k && (R[R_KEY].events & ev))
		expect_add(R_KEY, ev, k, oldv, newv, R[R_KEY].zombie ? 0 : min, 1);
	if (R[R_PREFIX].on && has_prefix(k, R[R_PREFIX].key) && (R[R_PREFIX].events & ev))
		expect_add(R_PREFIX, ev, k, oldv, newv, min, 1);
	if ((ev & (QB_MAP_NOTIFY_DELETED | QB_MAP_NOTIFY_REPLACED)) && R[R_FREE].on)
		expect_add(R_FREE, QB_MAP_NOTIFY_FREE, k, oldv, newv, 1, 1);
}

static void check_calls(const char *op)
{
	int i, j;
#if WITH_ITERS
	/* with open iterators removal is reference counted, so notifications may be deferred:
	   only the exactly-once release bookkeeping below is judged */
	nex = 0;
	for (i = 0; i < ncalls; i++) if (calls[i].ev != QB_MAP_NOTIFY_FREE) calls[i].reg = -1;
#else
	for (i = 0; i < ncalls; i++) {
		struct call *c = &calls[i];
		int k = key_of(c->key), hit = 0;
		for (j = 0; j < nex; j++) {
			if (ex[j].reg != c->reg || ex[j].ev != c->ev || ex[j].key != k) continue;
			if (ex[j].oldv != c->oldv) continue;
			/* the FREE call is documented through its old value; new value is not specified for it */
			if (c->ev != QB_MAP_NOTIFY_FREE && ex[j].newv != c->newv) continue;
			ex[j].got++; hit = 1;
			if (ex[j].got > ex[j].max)
				vp_fail("%s %s: notifier %d called %d times for event %u key '%s'", typen[mtype], op, c->reg, ex[j].got, c->ev, c->key);
			break;
		}
		if (!hit) {
			if (c->reg >= 0 && c->reg < NREG && R[c->reg].zombie) continue;
			vp_fail("%s %s: unexpected notifier call: registration %d event %u key '%s' old %p new %p",
				typen[mtype], op, c->reg, c->ev, c->key, c->oldv, c->newv);
		}
	}
	for (j = 0; j < nex; j++)
		if (ex[j].got < ex[j].min)
			vp_fail("%s %s: notifier %d was not called for event %u key '%s' (old %p new %p)",
				typen[mtype], op, ex[j].reg, ex[j].ev, kname(ex[j].key), ex[j].oldv, ex[j].newv);
#endif
	/* FREE bookkeeping: a value leaves the map exactly once */
	for (i = 0; i < ncalls; i++) {
		if (calls[i].ev == QB_MAP_NOTIFY_FREE && calls[i].reg == R_FREE) {
			int v = valid(calls[i].oldv);
			if (v >= 0 && vals[v].in_map) vp_fail("%s %s: value-release notifier called for a value that is still in the map", typen[mtype], op);
			if (v < 0) vp_fail("%s %s: FREE notifier called with a value that was never stored (%p)", typen[mtype], op, calls[i].oldv);
			if (vals[v].freed++) vp_fail("%s %s: FREE notifier called twice for the same value", typen[mtype], op);
		}
	}
	ncalls = 0; nex = 0;
}

/* ---- skiplist level control ---- */
static int lvl_pending = -1, lvl_key;
long __wrap_random(void);
long __wrap_random(void)
{
	if (lvl_pending < 0) {
		int def = lvl_key % 3;
		lvl_pending = def;
		if (level_choices) {
			int c = vp_env(3, "skiplist-level");
			lvl_pending = (def + c) % 3;
		}
	}
	if (lvl_pending > 0) { lvl_pending--; return 1; }   /* < P_CEIL: one level up */
	lvl_pending = -1;
	return 0xffff;                                        /* stop */
}

/* ---- audits ---- */
static void audit_dict(const char *after)
{
	int k, n = 0;
	for (k = 0; k < NKEYS; k++) {
		void *g = qb_map_get(M, keytxt[1][k]);
		if (present[k]) {
			n++;
			if (g != value[k]) vp_fail("%s after %s: get('%s') = %p, latest put stored %p", typen[mtype], after, kname(k), g, value[k]);
		} else if (g != NULL) vp_fail("%s after %s: get('%s') = %p but the key is not in the map", typen[mtype], after, kname(k), g);
	}
	if ((int)qb_map_count_get(M) != n) vp_fail("%s after %s: count = %zu, keys present = %d", typen[mtype], after, qb_map_count_get(M), n);
}

static int in_order_before(int a, int b) { return korder[a] < korder[b]; }

static void full_iteration(const char *why, int pref)
{
	qb_map_iter_t *it = pref < 0 ? qb_map_iter_create(M) : qb_map_pref_iter_create(M, prefixes[pref]);
	const char *p;
	void *v;
	int seen[NKEYS] = { 0 }, last = -1, k, guard = 0;
	if (!it) vp_fail("iter_create failed");
	for (p = qb_map_iter_next(it, &v); p; p = qb_map_iter_next(it, &v)) {
		k = key_of(p);
		if (++guard > 4 * NKEYS) vp_fail("%s %s: iteration does not terminate", typen[mtype], why);
		if (k < 0 || !present[k]) vp_fail("%s %s: iteration returned key '%s' which is not in the map", typen[mtype], why, p);
		if (pref >= 0 && !has_prefix(k, pref)) vp_fail("%s %s: prefix iterator '%s' returned key '%s'", typen[mtype], why, prefixes[pref], kname(k));
		if (seen[k]++) vp_fail("%s %s: iteration returned key '%s' twice", typen[mtype], why, kname(k));
		if (v != value[k]) vp_fail("%s %s: iteration returned wrong value for '%s'", typen[mtype], why, kname(k));
		if (mtype != HT && last >= 0 && !in_order_before(last, k))
			vp_fail("%s %s: iteration not in ascending key order: '%s' after '%s'", typen[mtype], why, kname(k), kname(last));
		last = k;
	}
	qb_map_iter_free(it);
	for (k = 0; k < NKEYS; k++)
		if (present[k] && !seen[k] && (pref < 0 || has_prefix(k, pref)))
			vp_fail("%s %s: iteration missed key '%s'", typen[mtype], why, kname(k));
}

struct fe { int stop_after, n; int seen[NKEYS]; };
static int32_t foreach_cb(const char *key, void *v, void *ud)
{
	struct fe *f = ud;
	int k = key_of(key);
	if (k < 0 || !present[k] || v != value[k]) vp_fail("%s foreach: wrong key/value '%s'", typen[mtype], key);
	if (f->seen[k]++) vp_fail("%s foreach: key '%s' twice", typen[mtype], key);
	f->n++;
	return f->n >= f->stop_after;
}

/* ---- operations ---- */
static void op_put(int k)
{
	void *nv = newval(), *old = value[k];
	lvl_key = k;
	if (present[k]) {
		expect_event(QB_MAP_NOTIFY_REPLACED, k, old, nv, 0);
		vals[valid(old)].in_map = 0;
	} else if (mtype == TR) {
		expect_event(QB_MAP_NOTIFY_INSERTED, k, NULL, nv, 0);
	} else {
		/* "QB_MAP_NOTIFY_INSERTED is only valid on tries": not demanded elsewhere */
		expect_event(QB_MAP_NOTIFY_INSERTED, k, NULL, nv, 1);
	}
	qb_map_put(M, keytxt[next_val & 1][k], nv);
	vp_log("put('%s', v%ld)%s", kname(k), next_val, present[k] ? " (replace)" : "");
	present[k] = 1; value[k] = nv;
	check_calls("put");
}

static void op_rm(int k)
{
	int r;
	if (present[k]) {
		expect_event(QB_MAP_NOTIFY_DELETED, k, value[k], NULL, 0);
		vals[valid(value[k])].in_map = 0;
	}
	r = qb_map_rm(M, keytxt[1][k]);
	vp_log("rm('%s') = %d", kname(k), r);
#if !WITH_ITERS
	if (present[k] && !r) vp_fail("%s: rm('%s') reported failure but the key was present", typen[mtype], kname(k));
	if (!present[k] && r) vp_fail("%s: rm('%s') reported success but the key was not present", typen[mtype], kname(k));
#endif
	if (present[k] && R[R_KEY].on && R[R_KEY].key == k) R[R_KEY].zombie = 1;
	present[k] = 0; value[k] = NULL;
	check_calls("rm");
}

static void op_notify_toggle(int r)
{
	int32_t rc;
	const char *key = NULL;
	int ev = 0, k = 0;
	if (!R[r].on) {
		switch (r) {
		case R_GLOBAL:
			/* on a trie the NULL key is the empty prefix: sub-keys are covered only with RECURSIVE (documented) */
			ev = QB_MAP_NOTIFY_REPLACED | QB_MAP_NOTIFY_DELETED | (mtype == TR ? QB_MAP_NOTIFY_INSERTED | QB_MAP_NOTIFY_RECURSIVE : 0);
			break;
		case R_FREE: ev = QB_MAP_NOTIFY_FREE; break;
		case R_KEY:
			/* lowest present key */
			for (k = 0; k < NKEYS && !present[k]; k++) ;
			key = keytxt[0][k];
			ev = QB_MAP_NOTIFY_REPLACED | QB_MAP_NOTIFY_DELETED;
			break;
		default:
			k = 0; key = prefixes[0];
			ev = QB_MAP_NOTIFY_INSERTED | QB_MAP_NOTIFY_REPLACED | QB_MAP_NOTIFY_DELETED | QB_MAP_NOTIFY_RECURSIVE;
		}
		rc = qb_map_notify_add(M, key, notify_cb, ev, (void *)(intptr_t)r);
		vp_log("notify_add(reg %d, key %s, events %d) = %d", r, key ? (r == R_KEY ? kname(k) : key) : "NULL", ev, rc);
		if (rc != 0) vp_fail("%s: notify_add failed: %d", typen[mtype], rc);
		R[r].on = 1; R[r].zombie = 0; R[r].key = k; R[r].events = ev;
		if (r == R_FREE) {
			/* values that left before the release notifier existed are not judged */
			int i2;
			for (i2 = 0; i2 < nvals; i2++) if (!vals[i2].in_map) vals[i2].freed = 1;
		}
	} else {
		if (R[r].zombie) {
			/* registered on an entry that has since been removed: outcome not specified; leave it */
			return;
		}
		key = r == R_KEY ? keytxt[1][R[r].key] : r == R_PREFIX ? prefixes[0] : NULL;
		rc = qb_map_notify_del_2(M, key, notify_cb, R[r].events, (void *)(intptr_t)r);
		vp_log("notify_del(reg %d) = %d", r, rc);
		if (rc != 0) vp_fail("%s: notify_del of a live registration failed: %d", typen[mtype], rc);
		R[r].on = 0;
	}
	check_calls("notify");
}

#if WITH_ITERS
#define MAXIT 2
static struct miter {
	qb_map_iter_t *it;
	int open, done;
	int whole[NKEYS];    /* present for the whole life so far */
	int ever[NKEYS];     /* present at some moment of its life */
	int changed[NKEYS];  /* value changed during its life */
	int ret[NKEYS];
	int inserted;        /* some insertion happened during its life */
	int parked;          /* key last returned (-1 none) */
	int parked_gone;     /* that key was removed while the iterator sits on it */
	const char *pref;    /* NULL: full iterator; else a trie prefix iterator */
} IT[MAXIT];
static int parked_seeds;
static int prefix_second_iter;   /* iterator 1 on a trie is qb_map_pref_iter_create(M, "ab") */
static int it_covers(int i, int k) { return !IT[i].pref || !strncmp(keyinit[k], IT[i].pref, strlen(IT[i].pref)); }

/* known-finding triggers (see /verif/known_findings.json); each returns 1 if the operation about to be
   executed goes through a listed, still reproducible defect and the execution must be cut here */
static int kf_cut(int kind /* 0 rm, 1 put, 2 next of iterator j */, int k, int j)
{
	int i, any_gone = 0, same_gone = 0, any_parked = 0, other_gone = 0;
	for (i = 0; i < MAXIT; i++) if (IT[i].open && IT[i].parked >= 0) {
		any_parked = 1;
		if (IT[i].parked_gone) {
			any_gone = 1;
			if (kind != 2 && IT[i].parked == k) same_gone = 1;
			if (kind == 2 && i != j) other_gone = 1;
		}
	}
	/* hashtable / trie: an entry removed while an iterator sits on it stays linked (and findable) until that
	   iterator moves on: operations on the same key and other iterators walking over it misbehave */
	if (mtype == HT && (same_gone || other_gone) && vp_known("ht-removed-entry-under-parked-iterator-stays-visible")) return 1;
	if (mtype == TR && (same_gone || other_gone) && vp_known("trie-removed-entry-under-parked-iterator-stays-visible")) return 1;
	/* skiplist: forward-array hand-over breaks when the list is changed again next to such an entry */
	if (mtype == SL && kind != 2 && any_gone && vp_known("sl-mutation-while-parked-removed")) return 1;
	/* trie: inserting splits nodes and moves key/value/refcount away from under a parked iterator */
	if (mtype == TR && kind == 1 && !present[k] && any_parked && vp_known("trie-insert-while-parked")) return 1;
	return 0;
}

static void iters_note_rm(int k)
{
	int i;
	for (i = 0; i < MAXIT; i++) if (IT[i].open) {
		IT[i].whole[k] = 0;
		if (IT[i].parked == k && present[k]) IT[i].parked_gone = 1;
	}
}
static void iters_note_put(int k, int was_present)
{
	int i;
	for (i = 0; i < MAXIT; i++) if (IT[i].open) {
		if (it_covers(i, k)) IT[i].ever[k] = 1;
		IT[i].changed[k] = 1;
		if (!was_present) IT[i].inserted = 1;
	}
}
static void iter_finish_check(int i)
{
	int k;
	for (k = 0; k < NKEYS; k++) {
		if (IT[i].whole[k] && IT[i].ret[k] == 0)
			vp_fail("%s: iterator %d ended without returning key '%s' which was present all the time", typen[mtype], i, kname(k));
	}
}
static void op_iter_create(int i)
{
	int k;
	memset(&IT[i], 0, sizeof IT[i]);
	if (prefix_second_iter && i == 1 && mtype == TR) IT[i].pref = "ab";
	IT[i].it = IT[i].pref ? qb_map_pref_iter_create(M, IT[i].pref) : qb_map_iter_create(M);
	if (!IT[i].it) vp_fail("iter_create failed");
	IT[i].open = 1; IT[i].parked = -1;
	for (k = 0; k < NKEYS; k++) IT[i].whole[k] = IT[i].ever[k] = present[k] && it_covers(i, k);
	vp_log("%s -> it%d", IT[i].pref ? "pref_iter_create('ab')" : "iter_create", i);
}
static void op_iter_next(int i)
{
	void *v = NULL;
	const char *p = qb_map_iter_next(IT[i].it, &v);
	int k;
	if (!p) {
		vp_log("it%d.next = NULL", i);
		IT[i].done = 1; IT[i].parked = -1;
		iter_finish_check(i);
		return;
	}
	k = key_of(p);
	vp_log("it%d.next = '%s'", i, k >= 0 ? kname(k) : p);
	if (k < 0) vp_fail("%s: iterator returned unknown key '%s'", typen[mtype], p);
	if (!it_covers(i, k)) vp_fail("%s: prefix iterator %d ('%s') returned key '%s'", typen[mtype], i, IT[i].pref, kname(k));
	if (!IT[i].ever[k]) vp_fail("%s: iterator %d returned key '%s' which was never present during its life", typen[mtype], i, kname(k));
	IT[i].ret[k]++;
	if (IT[i].ret[k] > 1 && !IT[i].inserted)
		vp_fail("%s: iterator %d returned key '%s' twice although only removals happened meanwhile", typen[mtype], i, kname(k));
	if (IT[i].ret[k] > 3) vp_fail("%s: iterator %d returned key '%s' %d times", typen[mtype], i, kname(k), IT[i].ret[k]);
	if (!IT[i].changed[k] && present[k] && v != value[k]) vp_fail("%s: iterator returned wrong value for '%s'", typen[mtype], kname(k));
	IT[i].parked = k; IT[i].parked_gone = 0;
}
static void op_iter_free(int i)
{
	qb_map_iter_free(IT[i].it);
	vp_log("it%d.free%s", i, IT[i].done ? "" : " (abandoned)");
	IT[i].open = 0; IT[i].it = NULL;
}
static int iters_open(void) { int i, n = 0; for (i = 0; i < MAXIT; i++) n += IT[i].open; return n; }
#else
static int iters_open(void) { return 0; }
#endif

static uint64_t model_hash(void)
{
	uint64_t h = mtype;
	int k;
	for (k = 0; k < NKEYS; k++) h = vp_hash(&present[k], sizeof(int), h);
	for (k = 0; k < NREG; k++) h = vp_hash(&R[k], sizeof R[k], h);
#if WITH_ITERS
	for (k = 0; k < MAXIT; k++) { h = vp_hash(&IT[k].open, sizeof(int), h); h = vp_hash(&IT[k].parked, sizeof(int), h); h = vp_hash(IT[k].ret, sizeof IT[k].ret, h); }
#endif
	return h;
}

static int keycmp(const char *x, const char *y)
{
	if (mtype != TR) return strcmp(x, y);
	for (; *x && *x == *y; x++, y++) ;
	/* a key sorts before its extensions; other bytes compare as signed chars */
	return (*x ? (int)(signed char)*x : -1000) - (*y ? (int)(signed char)*y : -1000);
}
static void map_create(void)
{
	int k, a, b;
	for (k = 0; k < NKEYS; k++) { strcpy(keytxt[0][k], keyinit[k]); strcpy(keytxt[1][k], keyinit[k]); }
	/* skiplist: strcmp order.  trie: the same for ASCII; bytes >= 0x80 are ordered as signed chars there
	   (documented in trie.c, "characters are stored in reverse"); "ascending" is taken per implementation */
	for (a = 0; a < NKEYS; a++) { korder[a] = 0; for (b = 0; b < NKEYS; b++) if (keycmp(keyinit[b], keyinit[a]) < 0) korder[a]++; }
	memset(present, 0, sizeof present); memset(value, 0, sizeof value);
	memset(R, 0, sizeof R); ncalls = nex = 0; nvals = 0; next_val = 0; lvl_pending = -1; destroying = 0;
#if WITH_ITERS
	memset(IT, 0, sizeof IT);
#endif
	M = mtype == HT ? qb_hashtable_create(4) : mtype == SL ? qb_skiplist_create() : qb_trie_create();
	if (!M) vp_fail("map create failed");
#if WITH_ITERS
	op_notify_toggle(R_FREE);
#endif
}

static void map_destroy_checked(void)
{
	int k, i;
	/* DELETED notifications at destroy are tolerated (0 or 1 per entry); FREE is demanded */
	for (k = 0; k < NKEYS; k++) if (present[k]) {
		expect_event(QB_MAP_NOTIFY_DELETED, k, value[k], NULL, 1);
		vals[valid(value[k])].in_map = 0;
	}
	qb_map_destroy(M);
	vp_log("destroy");
	check_calls("destroy");
	if (R[R_FREE].on)
		for (i = 0; i < nvals; i++)
			if (vals[i].freed != 1)
				vp_fail("%s: value v%d left the map (or the map was destroyed) but the value-release notifier ran %d times for it",
					typen[mtype], i + 1, vals[i].freed);
}

static void run(void)
{
	int step, i;
	mtype = only_type >= 0 ? only_type : vp_choose(3, "map type");
	map_create();
	/* non-initial start states: a seed is a subset of the first 4 keys inserted in one of two orders */
	if (seeds_on) {
		int seed = vp_choose(1 + 2 * 15, "seed map");
		if (seed) {
			int sub = 1 + (seed - 1) % 15, rev = (seed - 1) / 15;
			for (i = 0; i < 4; i++) { int k = rev ? 3 - i : i; if (sub & (1 << k)) op_put(k); }
		}
	}
#if WITH_ITERS
	if (parked_seeds) {
		/* non-initial iterator states: iterators already positioned on (adjacent) entries when the history starts */
		static const int pos[6][2] = { { -1, -1 }, { 1, -1 }, { 1, 2 }, { 2, 3 }, { 2, 2 }, { 2, 1 } };
		int sd = vp_choose(6, "iterators parked at the start"), j, k;
		for (j = 0; j < 2; j++) if (pos[sd][j] >= 0) {
			op_iter_create(j);
			for (k = 0; k < pos[sd][j] && !IT[j].done; k++) op_iter_next(j);
		}
	}
#endif
	for (step = 0; step < depth; step++) {
		int n = 0, c, base_put, base_rm, base_misc, base_not, base_it;
		int npref = mtype == TR ? NPREF : 0;
		base_put = 0; base_rm = nkeys_used; base_misc = 2 * nkeys_used;
		base_not = base_misc + 3 + npref;
		base_it = base_not + (WITH_ITERS ? 0 : NREG);
		n = base_it + (WITH_ITERS ? 3 * 2 : 0);
		c = vp_choose(n, "op");
		if (c < base_rm) {
			int k = c - base_put, was = present[k];
#if WITH_ITERS
			if (kf_cut(1, k, -1)) { vp_pruned(); vp_count(0, 1); return; }
#endif
			op_put(k);
#if WITH_ITERS
			iters_note_put(k, was);
#else
			(void)was;
#endif
		} else if (c < base_misc) {
			int k = c - base_rm;
#if WITH_ITERS
			if (kf_cut(0, k, -1)) { vp_pruned(); vp_count(0, 1); return; }
			iters_note_rm(k);
#endif
			op_rm(k);
		} else if (c == base_misc) {
			if (iters_open()) { vp_pruned(); return; }
			full_iteration("iterate", -1);
			vp_log("iterate: ok");
		} else if (c == base_misc + 1) {
			struct fe f = { .stop_after = 1 };
			if (iters_open()) { vp_pruned(); return; }
			qb_map_foreach(M, foreach_cb, &f);
			vp_log("foreach abandoned after 1");
		} else if (c == base_misc + 2) {
			/* destroy ends the history */
			break;
		} else if (c < base_not) {
			if (iters_open()) { vp_pruned(); return; }
			full_iteration("prefix iterate", c - (base_misc + 3));
			vp_log("prefix iterate '%s': ok", prefixes[c - (base_misc + 3)]);
		} else if (c < base_it) {
			int r = c - base_not, k;
			if (r == R_PREFIX && mtype != TR) { vp_pruned(); return; }
			if (r == R_KEY && !R[r].on) { for (k = 0; k < NKEYS && !present[k]; k++) ; if (k == NKEYS) { vp_pruned(); return; } }
			if (r == R_FREE && R[r].on) { vp_pruned(); return; }   /* keep the release oracle simple: FREE stays once added */
			op_notify_toggle(r);
		}
#if WITH_ITERS
		else {
			int j = (c - base_it) / 3, what = (c - base_it) % 3;
			if (what == 0) { if (IT[j].open) { vp_pruned(); return; } op_iter_create(j); }
			else if (what == 1) {
				if (!IT[j].open || IT[j].done) { vp_pruned(); return; }
				if (kf_cut(2, -1, j)) { vp_pruned(); vp_count(0, 1); return; }
				op_iter_next(j);
			}
			else { if (!IT[j].open) { vp_pruned(); return; } op_iter_free(j); }
		}
#endif
		if (!iters_open()) audit_dict("op");
		vp_state(model_hash());
	}
#if WITH_ITERS
	/* finish: drain and free every open iterator, then the map must be the dictionary of survivors */
	for (i = 0; i < MAXIT; i++) if (IT[i].open) {
		int guard = 0;
		while (!IT[i].done) {
			if (kf_cut(2, -1, i)) { vp_pruned(); vp_count(0, 1); return; }
			op_iter_next(i); if (++guard > 40) vp_fail("%s: iterator %d does not terminate", typen[mtype], i);
		}
		op_iter_free(i);
	}
#endif
	audit_dict("history");
	full_iteration("final iterate", -1);
	{ uint64_t h = model_hash(); vp_outcome(&h, 8); }
	/* the release notifier is registered late on purpose in some histories; make sure it exists at destroy */
	if (!R[R_FREE].on) op_notify_toggle(R_FREE);
	map_destroy_checked();
}
