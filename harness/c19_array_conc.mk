EXTRA_c19_array_conc := $(SCHED_O) $(B)/tsan/array.o
LDFLAGS_c19_array_conc := $(SCHED_WRAP)
