/* C07: capacity contract and loss-free sequential FIFO, for every wrap position */
#include "rb_common.h"

static const size_t SIZES[] = { 4083, 4084, 1, 100, 5000, 9000 };    /* 9000: a ring of three pages, not a power of two */
#define NSIZES 6
#define MAXQ 64
static struct { size_t len; int pat; uint32_t seed; } Q[MAXQ];
static int qh, qt;                 /* model deque [qh,qt) */
static uint32_t seedctr;
static int depth, allpos, fullalpha, sizes_mask;
static struct ring *R;
static int nosem;

static size_t q_overhead_sum(void) { size_t s = 0; int i; for (i = qh; i < qt; i++) s += Q[i].len + 16; return s; }

static void expect_unchanged(const char *what)
{
	if (!ring_same(R, R->tmp_hdr, R->tmp_data))
		vp_fail("S=%zu %s: %s changed the ring buffer although it must change nothing", R->S, nosem ? "nosem" : "sem", what);
}

static void do_write(size_t len, int pat, int via_alloc)
{
	uint32_t seed = ++seedctr;
	int must = (qh == qt && len <= R->S) || (q_overhead_sum() + len + 16 <= R->S);
	ssize_t r;
	ring_save(R, R->tmp_hdr, R->tmp_data);
	if (via_alloc) {
		unsigned char *d;
		errno = 0;
		d = qb_rb_chunk_alloc(R->rb, len);
		if (!d) {
			r = -errno;
		} else {
			int32_t c;
			pat_fill(d, len, pat, seed);
			c = qb_rb_chunk_commit(R->rb, len);
			r = c < 0 ? c : (ssize_t)len;
		}
	} else {
		pat_fill(iobuf, len, pat, seed);
		r = qb_rb_chunk_write(R->rb, iobuf, len);
	}
	vp_log("%s(len=%zu,%s) = %zd%s", via_alloc ? "alloc+commit" : "write", len, patn[pat], r, must ? "  [must be accepted]" : "");
	if (r == (ssize_t)len) {
		if (qt >= MAXQ) vp_broken("model queue overflow");
		Q[qt].len = len; Q[qt].pat = pat; Q[qt].seed = seed; qt++;
		return;
	}
	if (must)
		vp_fail("S=%zu: write of %zu bytes refused (%zd) although %s", R->S, len, r,
			qh == qt ? "the buffer is empty and the chunk is not larger than the requested size"
				 : "unread chunks plus the new one (16 bytes overhead each) fit in the requested size");
	if (r != -EAGAIN) vp_fail("S=%zu: refused write of %zu bytes returned %zd, not -EAGAIN", R->S, len, r);
	expect_unchanged("a refused write");
}

static void check_payload(const unsigned char *b, size_t len, int i, const char *what)
{
	long d = pat_diff(b, len, Q[i].pat, Q[i].seed);
	if (d >= 0) vp_fail("S=%zu %s: %s returned damaged data: byte %ld of a %zu-byte chunk differs", R->S, nosem ? "nosem" : "sem", what, d, len);
}

static void do_read_big(void)
{
	ssize_t r = qb_rb_chunk_read(R->rb, iobuf, sizeof iobuf, 0);
	vp_log("read(big) = %zd", r);
	if (qh == qt) {
		if (r >= 0) vp_fail("S=%zu %s: read on an empty buffer returned a chunk of %zd bytes", R->S, nosem ? "nosem" : "sem", r);
		if (r == -ENOBUFS) vp_fail("S=%zu %s: read on an empty buffer reported -ENOBUFS (a phantom chunk larger than 64 KiB)", R->S, nosem ? "nosem" : "sem");
		return;
	}
	if (r != (ssize_t)Q[qh].len) vp_fail("S=%zu %s: read returned %zd, oldest unread chunk has %zu bytes", R->S, nosem ? "nosem" : "sem", r, Q[qh].len);
	check_payload(iobuf, r, qh, "read");
	qh++;
}

static void do_read_small(void)
{
	ssize_t r;
	if (qh == qt || Q[qh].len == 0) { do_read_big(); return; }
	ring_save(R, R->tmp_hdr, R->tmp_data);
	r = qb_rb_chunk_read(R->rb, iobuf, Q[qh].len - 1, 0);
	vp_log("read(buf=%zu) = %zd", Q[qh].len - 1, r);
	if (r != -ENOBUFS) vp_fail("S=%zu: read into a buffer one byte too small returned %zd, not -ENOBUFS", R->S, r);
	expect_unchanged("a read into a too-small buffer");
}

static void do_peek(int reclaim)
{
	void *p = NULL;
	ssize_t r;
	if (!reclaim) ring_save(R, R->tmp_hdr, R->tmp_data);
	r = qb_rb_chunk_peek(R->rb, &p, 0);
	vp_log("peek = %zd%s", r, reclaim ? " ; reclaim" : "");
	if (qh == qt) {
		if (r > 0) vp_fail("S=%zu %s: peek on an empty buffer returned a chunk of %zd bytes", R->S, nosem ? "nosem" : "sem", r);
	} else {
		if (r != (ssize_t)Q[qh].len) vp_fail("S=%zu %s: peek returned %zd, oldest unread chunk has %zu bytes", R->S, nosem ? "nosem" : "sem", r, Q[qh].len);
		if (r > 0) check_payload(p, r, qh, "peek");
	}
	if (reclaim) {
		if (qh != qt) { qb_rb_chunk_reclaim(R->rb); qh++; }
	} else expect_unchanged("peek");
}

static void do_reclaim(void)
{
	if (qh == qt) ring_save(R, R->tmp_hdr, R->tmp_data);
	qb_rb_chunk_reclaim(R->rb);
	vp_log("reclaim");
	if (qh == qt) expect_unchanged("reclaim on an empty buffer");
	else qh++;
}

static int lens_for(size_t S, size_t *out)
{
	long cand_full[] = { 0, 1, 3, 4, 5, (long)S / 2, (long)S - 17, (long)S - 16, (long)S - 1, (long)S, (long)S + 1 };
	long cand_small[] = { 0, 1, 5, (long)S / 2, (long)S };
	long *c = fullalpha ? cand_full : cand_small;
	int nc = fullalpha ? 11 : 5, n = 0, i, j;
	for (i = 0; i < nc; i++) {
		int dup = 0;
		if (c[i] < 0) continue;
		for (j = 0; j < n; j++) if (out[j] == (size_t)c[i]) dup = 1;
		if (!dup) out[n++] = (size_t)c[i];
	}
	return n;
}

static void run(void)
{
	size_t lens[16];
	int nl, si, step, stale, np;
	uint32_t p, W;
	uint32_t plist[16];
	static const int stales[] = { -1, PAT_LIVE, PAT_ALLOC };

	/* configuration */
	{
		int avail[NSIZES], na = 0, i;
		for (i = 0; i < NSIZES; i++) if (sizes_mask & (1 << i)) avail[na++] = i;
		si = avail[vp_choose(na, "size")];
	}
	nosem = vp_choose(2, "semaphore/none");
	stale = stales[vp_choose(allpos ? 2 : 3, "stale ring content")];
	R = ring_get(SIZES[si], nosem ? QB_RB_FLAG_NO_SEMAPHORE : 0);
	W = R->W;
	if (allpos) {
		p = (uint32_t)vp_choose((int)W, "start position");
	} else {
		uint32_t half = (uint32_t)((R->S / 2) / 4);
		np = 0;
		plist[np++] = 0; plist[np++] = 1; plist[np++] = 2; plist[np++] = 3;
		plist[np++] = W - 1; plist[np++] = W - 2; plist[np++] = W - 3; plist[np++] = W - 4; plist[np++] = W - 6;
		plist[np++] = W / 2;
		if (half > 8) { plist[np++] = W - half / 2; plist[np++] = W - half - 1; }
		p = plist[vp_choose(np, "start position")];
	}
	ring_position(R, stale, p);
	vp_log("S=%zu %s stale=%s start position %u of %u words", R->S, nosem ? "nosem" : "sem", stale < 0 ? "none" : patn[stale], p, W);
	qh = qt = 0; seedctr = 0;
	nl = lens_for(R->S, lens);

	for (step = 0; step < depth; step++) {
		int nw = 2 * nl, na = nl, n = nw + na + 3 + (nosem ? 2 : 0), c;
		c = vp_choose(n, "op");
		if (c < nw) do_write(lens[c / 2], (c & 1) ? PAT_LIVE : PAT_INDEX, 0);
		else if (c < nw + na) do_write(lens[c - nw], PAT_INDEX, 1);
		else if (c == nw + na) do_read_big();
		else if (c == nw + na + 1) do_read_small();
		else if (c == nw + na + 2) do_peek(1);
		else if (c == nw + na + 3) do_peek(0);
		else do_reclaim();
		{ uint64_t k[3] = { ring_hash(R), (uint64_t)(qt - qh), R->S * 2 + nosem }; vp_state(vp_hash(k, sizeof k, 3)); }
	}
	/* drain: everything written and not yet read must come out, in order, intact; then empty */
	{ uint64_t o[2] = { (uint64_t)(qt - qh), q_overhead_sum() }; vp_outcome(o, sizeof o); }
	while (qh != qt) do_read_big();
	do_read_big();
	do_peek(0);
}

static void init(void)
{
	depth = (int)vp_param("depth", 3, 4);
	allpos = (int)vp_param("all_positions", 0, 0);
	fullalpha = (int)vp_param("full_alphabet", 1, 1);
	sizes_mask = (int)vp_param("sizes_mask", 63, 63);
}

int main(int argc, char **argv)
{
	static struct vp_harness h = {
		.property = "C07", .name = "c07_rb_seq", .level = "model_checking",
		.run = run, .init = init, .batch = 4000, .private_shm = 1,
		.rule = "real rings of requested size S in {1,100,4083,4084,5000,9000}, with/without semaphore, pre-filled (through the API) with stale "
			"words that equal the ring's marker constants, positioned at every start word (all_positions) or at all wrap-critical words; "
			"every sequence of <= depth operations over write/alloc+commit (11 lengths incl. S-17..S+1, two payloads), read, read into a "
			"too-small buffer, peek, reclaim, compared with a deque model; refused operations must leave the full ring image bit-identical; "
			"states = distinct (ring image, model) pairs, distinct = final queue shapes",
		.assumptions = { "start positions are reached by a positioning prefix of public API calls (not by poking the header)",
				 "peek is followed by reclaim on rings with a semaphore (API contract)",
				 "on an empty ring read must report an error other than -ENOBUFS and peek must return <= 0", NULL },
	};
	return vp_main(argc, argv, &h);
}
