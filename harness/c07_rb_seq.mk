LDFLAGS_c07_rb_seq := -Wl,--wrap=mmap
