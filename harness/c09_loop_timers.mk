LDFLAGS_c09_loop_timers := $(LOOP_WRAP)
