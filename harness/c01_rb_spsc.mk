EXTRA_c01_rb_spsc := $(SCHED_O) $(B)/tsan/ringbuffer.o
LDFLAGS_c01_rb_spsc := -Wl,--wrap=mmap $(SCHED_WRAP)
