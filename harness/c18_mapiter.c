/* C18: iterators stay valid while entries are removed or added under them */
#define WITH_ITERS 1
#include "maps_common.h"

static void init(void)
{
	depth = (int)vp_param("depth", 5, 6);
	only_type = (int)vp_param("only_type", -1, -1);
	nkeys_used = (int)vp_param("keys", 4, 4);
	seeds_on = (int)vp_param("seeded_starts", 1, 1);
	level_choices = (int)vp_param("skiplist_level_choices", 0, 0);
	prefix_second_iter = (int)vp_param("prefix_second_iter", 0, 0);
	parked_seeds = (int)vp_param("parked_iterators_at_start", 0, 0);
	vp_count_name(0, "executions_cut_at_known_finding_trigger");
}
int main(int argc, char **argv)
{
	static struct vp_harness h = {
		.property = "C18", .name = "c18_mapiter", .level = "model_checking",
		.run = run, .init = init, .batch = 5000,
		.rule = "from every seeded map (subsets of 4 keys in two insertion orders) every history of <= depth operations over "
			"{put, rm on the keys (present, absent, parked, same key twice), iter_create/next/free for two iterators} on each real "
			"map type; oracle: ASan, iteration completeness/uniqueness, exactly-once value release, and after all iterators are "
			"drained and freed the map equals the dictionary of survivors (get, count, ordered full iteration); distinct = final model states",
		.assumptions = { "return values of rm/get are not judged while an iterator is open (C18 only promises dictionary behaviour once iterators are gone)",
				 "skiplist levels are a fixed function of the key", NULL },
	};
	return vp_main(argc, argv, &h);
}
