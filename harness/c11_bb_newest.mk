LDFLAGS_c11_bb_newest := -Wl,--wrap=clock_gettime -Wl,--wrap=printf -Wl,--wrap=puts -Wl,--wrap=putchar
