/* C14 (the logger around the encoder): the long-line mode of c15_bb_dump.c under this property's name -- whatever line
   length the blackbox is configured for, a record, fitting or not, is encoded inside the chunk reserved for it */
#define VP_C14_TWIN 1
#include "c15_bb_dump.c"
