/* C14: blackbox record (format + raw arguments) decodes to what printf would have produced */
#include "vp.h"
#include <qb/qblog.h>
#include <qb/qbdefs.h>
#include <errno.h>
#include <stdio.h>
#include <stdarg.h>
#include <string.h>
#include <stdlib.h>
#include <limits.h>
#include <math.h>

/* one directive */
struct dir { int flags, width, prec, lenmod; char conv; int val; };
static const char *FLAGS[] = { "", "-", "0", "+", " ", "#", "-+", "0+" };
static const char *WIDTHS[] = { "", "1", "12", "*" };
static const char *PRECS[] = { "", ".0", ".3", ".*" };
static const char *LENS[] = { "", "l", "ll", "z", "t", "j" };
static const char CONVS[] = "diouxXcspeEfFgGaA%";
static const char *LITS[] = { "", "ab", NULL /* 600 chars */ };
static char lit600[601];
static char str600[601];
static int ndirs_max, reduced;

static int conv_class(char c) { return strchr("diouxX", c) ? 0 : strchr("eEfFgGaA", c) ? 1 : c == 'c' ? 2 : c == 's' ? 3 : c == 'p' ? 4 : 5; }

/* is this a combination C defines? */
static int legal(const struct dir *d)
{
	int cls = conv_class(d->conv);
	const char *f = FLAGS[d->flags];
	if (d->conv == '%') return d->flags == 0 && d->width == 0 && d->prec == 0 && d->lenmod == 0;
	if (strchr(f, '#') && !(strchr("oxX", d->conv) || cls == 1)) return 0;
	if (strchr(f, '0') && cls >= 2) return 0;
	if ((strchr(f, '+') || strchr(f, ' ')) && !(strchr("di", d->conv) || cls == 1)) return 0;
	if (d->prec && (cls == 2 || cls == 4)) return 0;
	if (d->lenmod && cls != 0 && !(cls == 1 && d->lenmod == 1)) return 0;
	if (strchr(f, '0') && d->prec && cls == 0) return 0;   /* 0 flag ignored with precision: defined, but skip the duplicate */
	return 1;
}

static int nvals(char conv) { int c = conv_class(conv); return c == 0 ? 5 : c == 1 ? 5 : c == 2 ? 2 : c == 3 ? 4 : c == 4 ? 2 : 1; }

/* argument marshalling (x86-64 SysV): integer-class and floating arguments are consumed from separate
 * register files, so passing 5 integer slots followed by 4 doubles serves any mixture with <= 5 / <= 4 */
static long IA[5]; static double DA[4]; static int ni, nd;
static char fmt[2048];
static int star_negative;

static int add_dir(const struct dir *d, size_t *fl)
{
	int cls = conv_class(d->conv);
	static const long ivals[] = { 0, 1, -1, 0, 0 };   /* MIN / MAX filled per type below */
	*fl += snprintf(fmt + *fl, sizeof fmt - *fl, "%%%s%s%s%s%c", FLAGS[d->flags], WIDTHS[d->width], PRECS[d->prec], LENS[d->lenmod], d->conv);
	if (d->conv == '%') return 1;
	/* a negative '*' width means left adjustment, a negative '*' precision means none was given (C99 7.19.6.1) */
	if (d->width == 3) { if (ni >= 5) return 0; IA[ni++] = star_negative ? -7 : 7; }
	if (d->prec == 3) { if (ni >= 5) return 0; IA[ni++] = star_negative ? -1 : 2; }
	switch (cls) {
	case 0: {
		long v = ivals[d->val];
		int wide = d->lenmod != 0;
		if (d->val == 3) v = wide ? LONG_MIN : INT_MIN;
		if (d->val == 4) v = wide ? LONG_MAX : INT_MAX;
		if (ni >= 5) return 0;
		IA[ni++] = v; break; }
	case 1: {
		static const double dv[] = { 0.0, -1.5, 1e300, INFINITY, NAN };
		if (nd >= 4) return 0;
		DA[nd++] = dv[d->val]; break; }
	case 2: if (ni >= 5) return 0; IA[ni++] = d->val ? 0x7e : 'A'; break;
	case 3: {
		const char *sv[] = { "", "a%d", str600, NULL };
		if (d->val == 3 && d->prec) return 0;          /* NULL with a precision: printf's own output is implementation defined */
		if (ni >= 5) return 0;
		IA[ni++] = (long)(intptr_t)sv[d->val]; break; }
	case 4: if (ni >= 5) return 0; IA[ni++] = d->val ? 0x1234abcd : 0; break;
	}
	return 1;
}

static size_t ser_len; static char *ser_buf; static size_t ser_cap;
static char ref_text[8192]; static int ref_len;
static void do_serialize(const char *f, ...) { va_list ap; va_start(ap, f); ser_len = qb_vsnprintf_serialize(ser_buf, ser_cap, f, ap); va_end(ap); }
static void do_printf(const char *f, ...) { va_list ap; va_start(ap, f); ref_len = vsnprintf(ref_text, sizeof ref_text, f, ap); va_end(ap); }
#define ARGS IA[0], IA[1], IA[2], IA[3], IA[4], DA[0], DA[1], DA[2], DA[3]

static void pick_dir(struct dir *d, int idx)
{
	if (reduced && idx > 0) {
		/* second / third directive from a representative subset */
		static const struct dir REP[] = {
			{ 0, 0, 0, 0, 'd', 4 }, { 0, 0, 0, 1, 'u', 3 }, { 1, 2, 0, 0, 'x', 1 }, { 0, 0, 2, 0, 's', 1 }, { 0, 0, 0, 0, 's', 2 },
			{ 0, 3, 3, 0, 'd', 2 }, { 0, 0, 0, 0, 'f', 1 }, { 0, 0, 0, 0, 'c', 0 }, { 0, 0, 0, 0, 'p', 1 }, { 0, 0, 0, 0, '%', 0 },
			{ 0, 0, 2, 0, 'f', 2 }, { 0, 0, 0, 2, 'd', 3 }, { 0, 0, 0, 0, 's', 0 }, { 0, 3, 0, 0, 's', 1 },
		};
		*d = REP[vp_choose((int)(sizeof REP / sizeof REP[0]), "directive (representative)")];
		return;
	}
	d->flags = vp_choose(8, "flags"); d->width = vp_choose(4, "width"); d->prec = vp_choose(4, "precision");
	d->lenmod = vp_choose(6, "length"); d->conv = CONVS[vp_choose((int)strlen(CONVS), "conversion")];
	d->val = 0;
}

static void run(void)
{
	struct dir D[3];
	int n = 1 + vp_choose(ndirs_max, "directives"), i, scase, dcase, xs;
	size_t fl = 0, fit, dcap, got;
	const char *lit[4];
	char *dbuf;
	ni = nd = 0; memset(IA, 0, sizeof IA); memset(DA, 0, sizeof DA);
	for (i = 0; i <= n; i++) { int c = vp_choose(n == 1 ? 3 : 2, "literal"); lit[i] = c == 2 ? lit600 : LITS[c]; }
	/* the extended-information marker (QB_XS) behind the last conversion: followed by text it is stored as '|', at the very end it is dropped */
	xs = lit[n] == LITS[0] ? vp_choose(3, "extended-information marker") : 0;
	if (xs) lit[n] = xs == 1 ? "\a" : "\aext";
	for (i = 0; i < n; i++) {
		pick_dir(&D[i], i);
		if (!legal(&D[i])) { vp_pruned(); return; }
		if (i == 0) star_negative = (D[i].width == 3 || D[i].prec == 3) ? vp_choose(2, "sign of the '*' arguments") : 0;
		if (!(reduced && i > 0)) D[i].val = vp_choose(nvals(D[i].conv), "argument value");
		fl += snprintf(fmt + fl, sizeof fmt - fl, "%s", lit[i]);
		if (!add_dir(&D[i], &fl)) { vp_pruned(); return; }
	}
	fl += snprintf(fmt + fl, sizeof fmt - fl, "%s", lit[n]);
	do_printf(fmt, ARGS);
	if (xs && ref_len >= 0 && ref_len < (int)sizeof ref_text) {
		char *m = strchr(ref_text, '\a');
		if (m && m[1]) *m = '|'; else if (m) { *m = 0; ref_len--; }
	}
	vp_log("format '%.100s%s' (%zu chars)  printf -> %d chars", fmt, fl > 100 ? "..." : "", fl, ref_len);

	/* 1. how much room does the record need */
	ser_cap = 4096; ser_buf = malloc(ser_cap); memset(ser_buf, 0x5a, ser_cap);
	do_serialize(fmt, ARGS);
	fit = ser_len;
	free(ser_buf);
	if (fit >= 4096) { vp_pruned(); return; }

	/* 2. encode into exact-size buffers */
	scase = vp_choose(3, "record space");
	ser_cap = scase == 0 ? (fit > 1 ? fit - 1 : 1) : scase == 1 ? fit : 512;
	if (ser_cap == 0) ser_cap = 1;
	ser_buf = malloc(ser_cap); memset(ser_buf, 0x5a, ser_cap);
	do_serialize(fmt, ARGS);
	/* a return value >= the space means "did not fit" to the caller (log_blackbox.c); only writes are judged (ASan) */
	if (ser_len >= ser_cap || ser_cap < fit) {
		/* did not fit (the blackbox replaces such a record): nothing to decode */
		vp_outcome_u64(1);
		free(ser_buf);
		return;
	}

	/* the record as the blackbox stores it: exactly the bytes the encoder reported, nothing readable behind them */
	{ char *exact = malloc(ser_len ? ser_len : 1); memcpy(exact, ser_buf, ser_len); free(ser_buf); ser_buf = exact; }

	/* 3. decode into exact-size buffers */
	dcase = vp_choose(4, "decode buffer");
	dcap = dcase == 0 ? 1 : dcase == 1 ? 16 : dcase == 2 ? (size_t)ref_len + 1 : 512;
	dbuf = malloc(dcap); memset(dbuf, 0x5a, dcap);
	got = qb_vsnprintf_deserialize(dbuf, dcap, ser_buf);
	if (got > dcap) vp_fail("deserialize returned %zu for a buffer of %zu", got, dcap);
	if (strnlen(dbuf, dcap) >= dcap) vp_fail("decoded text is not terminated inside the %zu byte buffer", dcap);
	if ((size_t)ref_len < dcap && ref_len < 512 && strcmp(dbuf, ref_text))
		vp_fail("format '%.60s': decoded '%.60s', printf gives '%.60s'", fmt, dbuf, ref_text);
	vp_outcome(dbuf, strlen(dbuf));
	vp_state(vp_hash(fmt, fl, (uint64_t)scase * 4 + (uint64_t)dcase));
	free(dbuf); free(ser_buf);
}

static void init(void)
{
	ndirs_max = (int)vp_param("max_directives", 1, 2);
	reduced = (int)vp_param("representative_followers", 1, 1);
	memset(lit600, 'L', 600); memset(str600, 'S', 600);
}

int main(int argc, char **argv)
{
	static struct vp_harness h = {
		.property = "C14", .name = "c14_bb_serialize", .level = "exploration",
		.run = run, .init = init, .batch = 20000,
		.rule = "grammar enumeration: formats of <= max_directives directives, the first from the full product flags {none,-,0,+,space,#,-+,0+} x "
			"width {none,1,12,*} x precision {none,.0,.3,.*} x length {none,l,ll,z,t,j} x conversion {d i o u x X c s p e E f F g G a A %} "
			"(combinations C defines), followers from 14 representative directives, literal text {'', 'ab', 600 chars} around them, argument "
			"values {0,1,-1,MIN,MAX}, {0,-1.5,1e300,inf,nan}, {'', 'a%d', 600 chars, NULL}; qb_vsnprintf_serialize into exact-size heap "
			"buffers {fit-1, fit, 512}, qb_vsnprintf_deserialize into {1,16,fit,512}; decoded text must equal vsnprintf's when it fits",
		.assumptions = { "x86-64 SysV argument passing is used to build argument lists", "%lc/%ls/%n and %s NULL with a precision are outside the alphabet", NULL },
	};
	return vp_main(argc, argv, &h);
}
