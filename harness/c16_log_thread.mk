EXTRA_c16_log_thread := $(SCHED_O) $(B)/tsan/log_thread.o
LDFLAGS_c16_log_thread := $(SCHED_WRAP) $(THREAD_WRAP) -Wl,--wrap=printf
