/* Guard zones around the ring mappings.
 *
 * A ring's data area is an anonymous PROT_NONE reservation of twice its size that the two halves of the file are then
 * mapped into.  The address sanitizer knows nothing about such mappings: an index that runs off the reservation simply
 * lands in whatever the kernel placed next to it (another ring, a header page, a library) and nothing is reported.
 * vp_guard_reserve() therefore makes every such reservation the middle of a larger PROT_NONE block, so that any access
 * up to VP_GUARD bytes before or behind the ring faults (the sanitizer reports the SEGV, the explorer the crash), and
 * vp_guard_release() gives the whole block back when the ring is unmapped.
 * Used through -Wl,--wrap=mmap -Wl,--wrap=munmap; harnesses that wrap mmap themselves call the two helpers. */
#ifndef VP_MMAP_GUARD_H
#define VP_MMAP_GUARD_H
#include <sys/mman.h>
#include <stddef.h>
#include <stdint.h>

#ifndef VP_GUARD
#define VP_GUARD ((size_t)64 << 20)
#endif
#define VP_GUARD_SLOTS 64

void *__real_mmap(void *addr, size_t len, int prot, int flags, int fd, off_t off);
int __real_munmap(void *addr, size_t len);

static struct { char *inner; size_t len; } vp_guards[VP_GUARD_SLOTS];

static int vp_guard_wanted(void *addr, int prot, int flags, int fd)
{
	return addr == NULL && prot == PROT_NONE && (flags & MAP_ANONYMOUS) && fd == -1;
}

static void *vp_guard_reserve(size_t len, int flags)
{
	int i;
	char *base;
	for (i = 0; i < VP_GUARD_SLOTS && vp_guards[i].inner; i++) ;
	if (i == VP_GUARD_SLOTS) return __real_mmap(NULL, len, PROT_NONE, flags, -1, 0);
	base = __real_mmap(NULL, len + 2 * VP_GUARD, PROT_NONE, flags | MAP_NORESERVE, -1, 0);
	if (base == MAP_FAILED) return __real_mmap(NULL, len, PROT_NONE, flags, -1, 0);
	vp_guards[i].inner = base + VP_GUARD; vp_guards[i].len = len;
	return base + VP_GUARD;
}

/* returns 1 and sets *res when addr is a guarded reservation (the whole block is released) */
static int vp_guard_release(void *addr, size_t len, int *res)
{
	int i;
	for (i = 0; i < VP_GUARD_SLOTS; i++) {
		if (vp_guards[i].inner && vp_guards[i].inner == (char *)addr) {
			size_t l = vp_guards[i].len > len ? vp_guards[i].len : len;
			vp_guards[i].inner = NULL;
			*res = __real_munmap((char *)addr - VP_GUARD, l + 2 * VP_GUARD);
			return 1;
		}
	}
	return 0;
}

#ifndef VP_GUARD_NO_WRAPPERS
void *__wrap_mmap(void *addr, size_t len, int prot, int flags, int fd, off_t off);
void *__wrap_mmap(void *addr, size_t len, int prot, int flags, int fd, off_t off)
{
	if (vp_guard_wanted(addr, prot, flags, fd)) return vp_guard_reserve(len, flags);
	return __real_mmap(addr, len, prot, flags, fd, off);
}
int __wrap_munmap(void *addr, size_t len);
int __wrap_munmap(void *addr, size_t len)
{
	int res;
	if (vp_guard_release(addr, len, &res)) return res;
	return __real_munmap(addr, len);
}
#endif
#endif
