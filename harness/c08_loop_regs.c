/* C08: the event loop runs every job, timer, descriptor and signal callback exactly as registered */
#include "loop_common.h"
#include <poll.h>

enum { T_JOB, T_TIMER, T_FD, T_SIG, NTYPES };
static const char *tn[] = { "job", "timer", "fd", "signal" };
#define MAXREG 16
struct reg {
	int type, prio, live, deleted, calls, expected, added_iter, seq;
	int fd, ready, returned_neg; int signo, old_signo;
	qb_loop_timer_handle th; uint64_t expiry;
	qb_loop_signal_handle sh;
	int last_call_iter, ready_since;
};
static struct reg R[MAXREG];
static int nreg, add_seq;
static qb_loop_t *L;
static int max_regs, max_actions, horizon, actions_left, in_raise, stop_called_iter, calls_after_stop;
static qb_loop_timer_handle stale_th; static int have_stale;
static int job_order[3][MAXREG], njob_order[3];
static int sigmod_prio, only_signal_sets, reconnect;

static void job_cb(void *d);
static void timer_cb(void *d);
static int32_t fd_cb(int32_t fd, int32_t revents, void *d);
static int32_t sig_cb(int32_t sig, void *d);

static int reg_new(int type, int prio)
{
	struct reg *r;
	if (nreg >= MAXREG) vp_broken("too many registrations");
	r = &R[nreg]; memset(r, 0, sizeof *r);
	r->type = type; r->prio = prio; r->live = 1; r->added_iter = loop_iterations; r->seq = add_seq++; r->fd = -1; r->last_call_iter = -1; r->ready_since = -1;
	return nreg++;
}
static int add_job(int prio)
{
	int id = reg_new(T_JOB, prio);
	int32_t rc = qb_loop_job_add(L, (enum qb_loop_priority)prio, (void *)(intptr_t)id, job_cb);
	if (rc) vp_fail("job_add failed: %d", rc);
	R[id].expected = 1;
	job_order[prio][njob_order[prio]++] = id;
	vp_log("    add job r%d prio %d", id, prio);
	return id;
}
static int add_timer(int prio, uint64_t d)
{
	int id = reg_new(T_TIMER, prio);
	int32_t rc = qb_loop_timer_add(L, (enum qb_loop_priority)prio, d, (void *)(intptr_t)id, timer_cb, &R[id].th);
	if (rc) vp_fail("timer_add failed: %d", rc);
	R[id].expected = 1; R[id].expiry = vnow + d;
	vp_log("    add timer r%d prio %d in %llu ns", id, prio, (unsigned long long)d);
	return id;
}
static int add_fd(int prio, int ready)
{
	int id = reg_new(T_FD, prio), fd = eventfd(ready ? 1 : 0, EFD_NONBLOCK);
	int32_t rc;
	if (fd < 0) vp_broken("eventfd");
	rc = qb_loop_poll_add(L, (enum qb_loop_priority)prio, fd, POLLIN, (void *)(intptr_t)id, fd_cb);
	if (rc) vp_fail("poll_add failed: %d", rc);
	R[id].fd = fd; R[id].ready = ready; R[id].ready_since = ready ? loop_iterations : -1;
	vp_log("    add fd r%d (fd %d) prio %d %s", id, fd, prio, ready ? "ready" : "idle");
	return id;
}
static int add_sig(int prio, int signo)
{
	int id = reg_new(T_SIG, prio);
	int32_t rc = qb_loop_signal_add(L, (enum qb_loop_priority)prio, signo, (void *)(intptr_t)id, sig_cb, &R[id].sh);
	if (rc) vp_fail("signal_add failed: %d", rc);
	R[id].signo = signo;
	vp_log("    add signal handler r%d for signal %d prio %d", id, signo, prio);
	return id;
}

static void del_reg(int id, int from_own_callback)
{
	struct reg *r = &R[id];
	int32_t rc;
	switch (r->type) {
	case T_JOB:
		rc = qb_loop_job_del(L, (enum qb_loop_priority)r->prio, (void *)(intptr_t)id, job_cb);
		vp_log("    job_del r%d = %d", id, rc);
		if (r->calls == 0 && !r->deleted) { if (rc != 0) vp_fail("job_del of a pending job failed: %d", rc); }
		else if (rc == 0) vp_fail("job_del succeeded for a job that already ran or was deleted");
		if (rc == 0) r->deleted = 1;
		break;
	case T_TIMER:
		rc = qb_loop_timer_del(L, r->th);
		vp_log("    timer_del r%d = %d", id, rc);
		if (r->calls == 0 && !r->deleted && !from_own_callback) { if (rc != 0) vp_fail("timer_del of a pending timer failed: %d", rc); r->deleted = 1; stale_th = r->th; have_stale = 1; }
		else if (rc == 0 && (r->calls > 0 || from_own_callback)) vp_fail("timer_del accepted the handle of a timer that %s", from_own_callback ? "is being dispatched" : "already fired");
		break;
	case T_FD:
		rc = qb_loop_poll_del(L, r->fd);
		vp_log("    poll_del r%d (fd %d) = %d", id, r->fd, rc);
		if (!r->deleted && !r->returned_neg) { if (rc != 0) vp_fail("poll_del of a registered descriptor failed: %d", rc); r->deleted = 1; }
		break;
	default:
		if (r->deleted) return;            /* a signal handle is a pointer: using it twice is the caller's bug */
		rc = qb_loop_signal_del(L, r->sh);
		vp_log("    signal_del r%d = %d", id, rc);
		if (rc != 0) vp_fail("signal_del failed: %d", rc);
		r->deleted = 1;
		break;
	}
}

static int sig_handled(int signo)
{
	int i;
	for (i = 0; i < nreg; i++) if (R[i].type == T_SIG && R[i].live && !R[i].deleted && R[i].signo == signo) return 1;
	return 0;
}
static void do_raise(int signo)
{
	int i;
	for (i = 0; i < nreg; i++) if (R[i].type == T_SIG && R[i].live && !R[i].deleted && R[i].signo == signo) R[i].expected++;
	in_raise = 1; raise(signo); in_raise = 0;
	vp_log("    raise(%d)", signo);
}

/* one action chosen by the explorer at a callback: the menu holds only what is applicable right now */
static int act(int self)
{
	enum { A_NONE, A_DEL_SELF, A_READD, A_NEWJOB, A_NEWTIMER, A_STALE, A_RAISE1, A_RAISE2, A_STOP, A_NEG, A_DEL_OTHER, A_TOGGLE, A_MOD, A_REPLACE, A_CLOSE_FIRST, A_SIGMOD, A_NULLH, A_RECONNECT };
	struct { int code, arg; } m[64];
	int n = 0, i, c, ret = 0;
	if (actions_left <= 0) return 0;
	m[n].code = A_NONE; m[n++].arg = 0;
	m[n].code = A_DEL_SELF; m[n++].arg = 0;
	if (R[self].type == T_JOB || R[self].type == T_TIMER) { m[n].code = A_READD; m[n++].arg = 0; }
	m[n].code = A_NEWJOB; m[n++].arg = 0;
	m[n].code = A_NEWTIMER; m[n++].arg = 0;
	if (have_stale) { m[n].code = A_STALE; m[n++].arg = 0; }
	m[n].code = A_NULLH; m[n++].arg = 0;
	if (sig_handled(SIGUSR1)) { m[n].code = A_RAISE1; m[n++].arg = 0; }
	if (sig_handled(SIGUSR2)) { m[n].code = A_RAISE2; m[n++].arg = 0; }
	m[n].code = A_STOP; m[n++].arg = 0;
	if (R[self].type == T_FD) { m[n].code = A_NEG; m[n++].arg = 0; }
	for (i = 0; i < nreg && n < 56; i++) {
		if (i == self || !R[i].live) continue;
		if (!(R[i].type == T_SIG && R[i].deleted)) { m[n].code = A_DEL_OTHER; m[n++].arg = i; }
		if (R[i].type == T_FD && !R[i].deleted && !R[i].returned_neg) {
			m[n].code = A_TOGGLE; m[n++].arg = i;
			m[n].code = A_MOD; m[n++].arg = i;
			m[n].code = A_REPLACE; m[n++].arg = i;
			m[n].code = A_CLOSE_FIRST; m[n++].arg = i;
		}
		if (R[i].type == T_SIG && !R[i].deleted) { m[n].code = A_SIGMOD; m[n++].arg = i; }
	}
	/* later additions go last, so that recorded answer sequences keep their meaning */
	if (R[self].type == T_FD && reconnect && n < 56) { m[n].code = A_RECONNECT; m[n++].arg = 0; }
	c = vp_choose(n, "callback action");
	if (m[c].code == A_NONE) return 0;
	actions_left--;
	switch (m[c].code) {
	case A_DEL_SELF: del_reg(self, 1); break;
	case A_READD:
		if (R[self].type == T_JOB) add_job(R[self].prio); else add_timer(R[self].prio, 0);
		break;
	case A_NEWJOB: add_job(1); break;
	case A_NEWTIMER: add_timer(1, 3000000); break;
	case A_STALE:
		{ int32_t rc = qb_loop_timer_del(L, stale_th); vp_log("    timer_del(stale handle) = %d", rc); if (rc == 0) vp_fail("a stale timer handle (fired or already deleted) was accepted by timer_del"); }
		break;
	case A_NULLH: {
		/* "cancel if pending, then re-arm" with a handle that was never armed: the null handle is refused, nothing else changes */
		int32_t rc = qb_loop_timer_del(L, 0);
		vp_log("    timer_del(null handle) = %d", rc);
		if (rc == 0) vp_fail("timer_del accepted the null handle (from inside a %s callback)", R[self].type == T_TIMER ? "timer" : "non-timer");
		if (qb_loop_timer_is_running(L, 0)) vp_fail("is_running reports the null handle as a pending timer");
		break; }
	case A_RAISE1: do_raise(SIGUSR1); break;
	case A_RAISE2: do_raise(SIGUSR2); break;
	case A_STOP: qb_loop_stop(L); stop_called_iter = loop_iterations; vp_log("    qb_loop_stop"); break;
	case A_NEG: ret = -1; break;
	case A_RECONNECT: {
		/* the usual "peer hung up" pattern: the callback closes its descriptor, connects again (the new descriptor gets
		   the number back), registers that one and reports a negative value so that the old registration goes away */
		int oldfd = R[self].fd, nid;
		close(oldfd);
		nid = add_fd(R[self].prio, 1);
		vp_log("    own fd %d closed, number reused by new registration r%d: %s", oldfd, nid, R[nid].fd == oldfd ? "yes" : "no");
		R[self].fd = -1;          /* the number now belongs to the new registration */
		ret = -1;
		break; }
	case A_DEL_OTHER: del_reg(m[c].arg, 0); break;
	default: {
		int o = m[c].arg;
		struct reg *r = &R[o];
		if (m[c].code == A_TOGGLE) {
			uint64_t v = 1;
			if (r->ready) { if (read(r->fd, &v, 8) != 8) vp_broken("eventfd read"); r->ready = 0; r->ready_since = -1; vp_log("    drain fd r%d", o); }
			else { if (write(r->fd, &v, 8) != 8) vp_broken("eventfd write"); r->ready = 1; r->ready_since = loop_iterations; vp_log("    make fd r%d ready", o); }
		} else if (m[c].code == A_MOD) {
			int np = r->prio == 2 ? 1 : 2;
			int32_t rc = qb_loop_poll_mod(L, (enum qb_loop_priority)np, r->fd, POLLIN, (void *)(intptr_t)o, fd_cb);
			vp_log("    poll_mod r%d to prio %d = %d", o, np, rc);
			if (rc != 0) vp_fail("poll_mod of a registered descriptor failed: %d", rc);
			r->prio = np;
		} else if (m[c].code == A_SIGMOD) {
			/* the handler moves to the other signal (rarely used call): handlers that stay on the old signal keep working */
			int ns = r->signo == SIGUSR1 ? SIGUSR2 : SIGUSR1;
			int np = sigmod_prio ? (r->prio == 2 ? 1 : 2) : r->prio;       /* optionally to another priority as well */
			int32_t rc = qb_loop_signal_mod(L, (enum qb_loop_priority)np, ns, (void *)(intptr_t)o, sig_cb, r->sh);
			r->prio = np;
			vp_log("    signal_mod r%d: signal %d -> %d = %d", o, r->signo, ns, rc);
			if (rc != 0) vp_fail("signal_mod failed: %d", rc);
			r->old_signo = r->signo; r->signo = ns;
		} else if (m[c].code == A_CLOSE_FIRST) {
			/* the application closes the descriptor first and removes the registration afterwards; whatever that call
			   reports, the old registration is gone with its descriptor, and the number comes back for a new one */
			int oldfd = r->fd, nid;
			int32_t rc;
			close(oldfd);
			rc = qb_loop_poll_del(L, oldfd);
			vp_log("    fd r%d (fd %d) closed, then poll_del = %d", o, oldfd, rc);
			r->deleted = 1; r->fd = -1;
			nid = add_fd(r->prio, 1);
			vp_log("    number %d reused by r%d: %s", oldfd, nid, R[nid].fd == oldfd ? "yes" : "no");
		} else {
			/* the descriptor is removed, closed, and its number comes back for a new registration */
			int oldfd = r->fd, nid;
			del_reg(o, 0);
			close(oldfd); r->fd = -1;
			nid = add_fd(r->prio, 1);
			vp_log("    fd r%d closed, number %d reused: %s", o, oldfd, R[nid].fd == oldfd ? "yes" : "no");
		}
		break; }
	}
	return ret;
}

static void enter_cb(int id, const char *what)
{
	struct reg *r = &R[id];
	if (id < 0 || id >= nreg) vp_fail("%s callback with unknown user data", what);
	if (in_raise) vp_fail("%s callback r%d invoked from inside raise(), not from loop context", what, id);
	if (r->deleted) vp_fail("%s callback r%d invoked after its delete call returned success", what, id);
	if (stop_called_iter >= 0) calls_after_stop++;
	r->calls++; r->last_call_iter = loop_iterations;
	vp_log("  iter %d: %s r%d (prio %d) called", loop_iterations, what, id, r->prio);
}

static void job_cb(void *d)
{
	int id = (int)(intptr_t)d, i;
	enter_cb(id, "job");
	if (R[id].calls > 1) vp_fail("job r%d ran %d times", id, R[id].calls);
	/* jobs of one priority run in the order they were added */
	for (i = 0; i < njob_order[R[id].prio]; i++) {
		int o = job_order[R[id].prio][i];
		if (o == id) break;
		if (R[o].calls == 0 && !R[o].deleted) vp_fail("job r%d ran before job r%d of the same priority which was added earlier", id, o);
	}
	act(id);
}
static void timer_cb(void *d)
{
	int id = (int)(intptr_t)d;
	enter_cb(id, "timer");
	if (R[id].calls > 1) vp_fail("timer r%d ran %d times", id, R[id].calls);
	if (vnow < R[id].expiry) vp_fail("timer r%d fired early", id);
	stale_th = R[id].th; have_stale = 1;
	act(id);
}
static int32_t fd_cb(int32_t fd, int32_t revents, void *d)
{
	int id = (int)(intptr_t)d, rc;
	enter_cb(id, "fd");
	if (fd != R[id].fd) vp_fail("fd callback r%d called with fd %d, registered %d", id, fd, R[id].fd);
	if (R[id].returned_neg) vp_fail("fd callback r%d called again after it returned a negative value", id);
	if (!(revents & POLLIN)) vp_fail("fd callback r%d called with revents %x", id, revents);
	rc = act(id);
	if (rc < 0) { R[id].returned_neg = 1; vp_log("    returns -1"); }
	return rc;
}
static int32_t sig_cb(int32_t sig, void *d)
{
	int id = (int)(intptr_t)d;
	enter_cb(id, "signal");
	/* a delivery queued before signal_mod still carries the number that was delivered */
	if (sig != R[id].signo && sig != R[id].old_signo) vp_fail("signal callback r%d got signal %d, registered for %d", id, sig, R[id].signo);
	/* a handler that was moved to another signal gets the deliveries the loop matches to it at dispatch time: which of the
	   deliveries still in flight at the moment of the move those are is not specified, so its count is not judged */
	if (!R[id].old_signo && R[id].calls > R[id].expected) vp_fail("signal callback r%d ran %d times for %d delivered signals", id, R[id].calls, R[id].expected);
	act(id);
	return 0;
}

static int polls_after_stop;
static void hook(int it, int timeout)
{
	int i;
	(void)timeout;
	if (stop_called_iter >= 0) { if (++polls_after_stop > 1) vp_fail("qb_loop_stop was called from a callback but the loop keeps iterating"); }
	/* liveness of descriptors: ready and registered for 4 whole iterations without a call */
	for (i = 0; i < nreg; i++) {
		struct reg *r = &R[i];
		if (r->type == T_FD && r->live && !r->deleted && !r->returned_neg && r->ready && r->ready_since >= 0) {
			int since = r->ready_since > r->last_call_iter ? r->ready_since : r->last_call_iter;
			if (it - since > 5) vp_fail("descriptor r%d has been ready and registered since iteration %d but its callback has not run by iteration %d", i, since, it);
		}
	}
	for (i = 0; i < nreg; i++) if (R[i].type == T_TIMER && R[i].ready_since < 0 && vnow > R[i].expiry) R[i].ready_since = it;   /* expired as of this poll */
	if (it >= horizon) qb_loop_stop(L);
}

static void run(void)
{
	int i, n;
	vnow = 1000000000ULL; loop_iterations = 0; blocked_forever = 0; rnd_ctr = 0;
	nreg = 0; add_seq = 0; have_stale = 0; in_raise = 0; stop_called_iter = -1; calls_after_stop = 0; polls_after_stop = 0;
	memset(njob_order, 0, sizeof njob_order);
	actions_left = max_actions;
	L = qb_loop_create();
	n = 1 + vp_choose(max_regs, "registrations");
	for (i = 0; i < n; i++) {
		int c = vp_choose(NTYPES * 2 + 1, "registration"), type = c / 2, prio = (c & 1) ? 2 : 1;
		if (c == NTYPES * 2) { add_sig(1, SIGUSR2); continue; }
		switch (type) {
		case T_JOB: add_job(prio); break;
		case T_TIMER: add_timer(prio, 0); break;
		case T_FD: add_fd(prio, 1); break;
		default: add_sig(prio, SIGUSR1); break;
		}
	}
	if (only_signal_sets) { int any = 0; for (i = 0; i < nreg; i++) any |= R[i].type == T_SIG; if (!any) { qb_loop_destroy(L); vp_pruned(); return; } }
	/* signals only matter if something raises them: one initial raise when a handler exists */
	for (i = 0; i < nreg; i++) if (R[i].type == T_SIG) { do_raise(R[i].signo); break; }
	env_hook = hook;
	qb_loop_run(L);
	env_hook = NULL;
	vp_log("run returned after %d iterations", loop_iterations);

	if (stop_called_iter < 0) {
		/* the loop ran to the horizon: everything that had 4 iterations to happen must have happened */
		for (i = 0; i < nreg; i++) {
			struct reg *r = &R[i];
			if (!r->live || r->deleted) continue;
			if (((r->type == T_JOB && horizon - r->added_iter > 6) || (r->type == T_TIMER && r->ready_since >= 0 && horizon - r->ready_since > 6)) && r->calls == 0)
				vp_fail("%s r%d (added at iteration %d) never ran in %d iterations", tn[r->type], i, r->added_iter, horizon);
			if (r->type == T_SIG && !r->old_signo && r->calls < r->expected && horizon > 8 && actions_left == max_actions)
				vp_fail("signal handler r%d ran %d times for %d delivered signals", i, r->calls, r->expected);
		}
	}
	{ uint64_t h = 0; for (i = 0; i < nreg; i++) h = h * 31 + (uint64_t)R[i].calls * 4 + (uint64_t)R[i].deleted * 2 + (uint64_t)R[i].returned_neg; vp_outcome_u64(h); vp_state(h * 7 + (uint64_t)nreg); }
	for (i = 0; i < nreg; i++) if (R[i].type == T_FD && R[i].fd >= 0) { if (!R[i].deleted && !R[i].returned_neg) qb_loop_poll_del(L, R[i].fd); close(R[i].fd); }
	qb_loop_destroy(L);
	signal(SIGUSR1, SIG_DFL); signal(SIGUSR2, SIG_DFL);
}

static void init(void)
{
	max_regs = (int)vp_param("max_registrations", 3, 4);
	max_actions = (int)vp_param("max_actions", 2, 3);
	sigmod_prio = (int)vp_param("signal_mod_changes_priority", 0, 0);
	reconnect = (int)vp_param("reconnect_in_callback", 1, 1);
	only_signal_sets = (int)vp_param("only_signal_sets", 0, 0);
	horizon = (int)vp_param("iterations", 14, 16);
}

int main(int argc, char **argv)
{
	static struct vp_harness h = {
		.property = "C08", .name = "c08_loop_regs", .level = "model_checking",
		.run = run, .init = init, .batch = 300, .timeout_s = 60,
		.rule = "<= max_registrations registrations (job, zero-delay timer, ready eventfd, SIGUSR1/SIGUSR2 handler at two priorities) made before "
			"qb_loop_run, then at EVERY callback invocation one action from {nothing, delete self, re-add self, add job, add 3 ms timer, use a "
			"stale timer handle, raise SIGUSR1/SIGUSR2, qb_loop_stop, return -1, and for every other registration: delete it (also when it is "
			"already queued), toggle its readiness, poll_mod it, close the descriptor and register a new one with the reused number}, with at "
			"most max_actions non-trivial actions per run, on the real loop with a virtual clock for a fixed horizon; oracle = registration "
			"model (exactly once, never after a successful delete, FIFO jobs per priority, descriptors called while ready and registered, "
			"signals from loop context once per delivery, stale handles refused, stop makes run return)",
		.assumptions = { "signal delivery by raise() is synchronous", "virtual clock, real epoll/eventfd/signals", NULL },
	};
	return vp_main(argc, argv, &h);
}
