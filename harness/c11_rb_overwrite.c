/* C11 (ring part): an overwrite ring always keeps the newest chunks, intact */
#include "rb_common.h"

static const size_t SIZES[] = { 4083, 100, 5000, 9000 };
#define NSIZES 4
#define MAXH 32
static struct { size_t len; int pat; uint32_t seed; } Hh[MAXH];
static int nh, depth, allpos;
static struct ring *R;
static int nosem;
static char *snap_hdr, *snap_data;
static size_t snap_cap_h, snap_cap_d;

static void drain_and_check(void)
{
	int k = 0, kmin = 0, i;
	size_t sum = 0;
	ssize_t r;
	/* how many of the newest chunks are guaranteed */
	for (i = nh - 1; i >= 0; i--) { sum += Hh[i].len + 16; if (sum > R->S) break; kmin++; }
	if (kmin < 1) kmin = 1;
	if (snap_cap_h < R->hdr_len) { snap_hdr = realloc(snap_hdr, R->hdr_len); snap_cap_h = R->hdr_len; }
	if (snap_cap_d < R->data_len) { snap_data = realloc(snap_data, R->data_len); snap_cap_d = R->data_len; }
	ring_save(R, snap_hdr, snap_data);
	/* read everything that is readable */
	{
		static struct { ssize_t len; uint64_t h; } got[4096];
		int ng = 0;
		while ((r = qb_rb_chunk_read(R->rb, iobuf, sizeof iobuf, 0)) >= 0) {
			if (ng >= 4096) vp_fail("S=%zu: drain does not terminate", R->S);
			got[ng].len = r; got[ng].h = vp_hash(iobuf, (size_t)r, 5); ng++;
			/* compare with the candidate write later, once we know k */
			if (ng > nh) vp_fail("S=%zu %s: %d chunks readable but only %d were written", R->S, nosem ? "nosem" : "sem", ng, nh);
		}
		if (r == -ENOBUFS) vp_fail("S=%zu: drain hit a phantom chunk larger than 64 KiB", R->S);
		k = ng;
		if (k < kmin)
			vp_fail("S=%zu %s: after %d writes only %d chunk(s) readable; the newest %d fit in the requested size (16 bytes overhead each)",
				R->S, nosem ? "nosem" : "sem", nh, k, kmin);
		for (i = 0; i < k; i++) {
			int w = nh - k + i;
			static unsigned char ref[1 << 16];
			if (got[i].len != (ssize_t)Hh[w].len)
				vp_fail("S=%zu %s: readable chunk %d of %d has %zd bytes; write #%d (which it must be) had %zu",
					R->S, nosem ? "nosem" : "sem", i, k, got[i].len, w, Hh[w].len);
			pat_fill(ref, Hh[w].len, Hh[w].pat, Hh[w].seed);
			if (got[i].h != vp_hash(ref, Hh[w].len, 5))
				vp_fail("S=%zu %s: readable chunk %d of %d (write #%d, %zu bytes) is damaged", R->S, nosem ? "nosem" : "sem", i, k, w, Hh[w].len);
		}
	}
	vp_log("  drain: newest %d of %d writes readable (guaranteed >= %d)", k, nh, kmin);
	vp_outcome_u64((uint64_t)k);
	ring_restore(R, snap_hdr, snap_data);
}

static void run(void)
{
	size_t lens[8];
	int nl = 0, si, step, stale, np;
	uint32_t p, W, plist[40];
	static const int stales[] = { -1, PAT_LIVE };
	size_t S;

	si = vp_choose(NSIZES, "size");
	nosem = vp_choose(2, "semaphore/none");
	stale = stales[vp_choose(2, "stale ring content")];
	R = ring_get(SIZES[si], QB_RB_FLAG_OVERWRITE | (nosem ? QB_RB_FLAG_NO_SEMAPHORE : 0));
	W = R->W; S = R->S;
	if (allpos) p = (uint32_t)vp_choose((int)W, "start position");
	else {
		np = 0;
		for (p = 0; p < 5; p++) plist[np++] = p;
		for (p = 1; p <= 8; p++) plist[np++] = W - p;
		plist[np++] = W / 2; plist[np++] = W - (uint32_t)(S / 8); plist[np++] = W - (uint32_t)(S / 12) - 1;
		p = plist[vp_choose(np, "start position")];
	}
	ring_position(R, stale, p);
	vp_log("S=%zu overwrite %s stale=%s start position %u of %u words", S, nosem ? "nosem" : "sem", stale < 0 ? "none" : patn[stale], p, W);
	nh = 0;
	lens[nl++] = 1; lens[nl++] = 7; lens[nl++] = S / 3; lens[nl++] = S / 2; lens[nl++] = S - 16; lens[nl++] = S;
	for (step = 0; step < depth; step++) {
		int c = vp_choose(nl * 2, "write"), pat = (c & 1) ? PAT_LIVE : PAT_INDEX;
		size_t len = lens[c / 2];
		ssize_t r;
		uint32_t seed = (uint32_t)(step + 1);
		pat_fill(iobuf, len, pat, seed);
		r = qb_rb_chunk_write(R->rb, iobuf, len);
		vp_log("write #%d (len=%zu,%s) = %zd", nh, len, patn[pat], r);
		if (r != (ssize_t)len) vp_fail("S=%zu overwrite: write of %zu bytes (<= requested size) failed: %zd", S, len, r);
		Hh[nh].len = len; Hh[nh].pat = pat; Hh[nh].seed = seed; nh++;
		vp_state(ring_hash(R));
		drain_and_check();
	}
}

static void init(void)
{
	depth = (int)vp_param("depth", 4, 5);
	allpos = (int)vp_param("all_positions", 0, 0);
}

int main(int argc, char **argv)
{
	static struct vp_harness h = {
		.property = "C11", .name = "c11_rb_overwrite", .level = "model_checking",
		.run = run, .init = init, .batch = 2000, .private_shm = 1,
		.rule = "real overwrite rings (S in {100,4083,5000,9000}, with/without semaphore, clean or pre-filled with words equal to the chunk marker), "
			"start positions around the wrap point (or every word), every sequence of <= depth writes with lengths {1,7,S/3,S/2,S-16,S} and two "
			"payloads; after EVERY write the ring image is saved, drained with qb_rb_chunk_read, compared with the newest-k suffix of the write "
			"history (k >= 1 and k >= what fits in S at 16 bytes overhead), and restored; states = distinct ring images, distinct = k values",
		.assumptions = { "start positions are reached through public API calls", NULL },
	};
	return vp_main(argc, argv, &h);
}
