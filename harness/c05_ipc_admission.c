/* C05: only accepted peers get channels; their files stay private */
#include "ipc_world.h"

static int transport;
static const struct { uid_t u; gid_t g; } CREDS[] = { { 0, 0 }, { 1000, 1000 }, { 1001, 1002 } };
static const int DECISIONS[] = { 0, -EACCES, -EPERM, -ENOMEM };
static const struct { int set; uid_t u; gid_t g; mode_t m; } AUTHS[] = { { 0, 0, 0, 0600 }, { 1, 1000, 1000, 0600 }, { 1, 1001, 1002, 0660 }, { 1, 0, 1002, 0640 } };
static int ci, di, ai, monitored, accept_calls, msg_calls, created_calls;
static uid_t seen_uid; static gid_t seen_gid;
static uid_t want_uid; static gid_t want_gid; static mode_t want_mode;
static int answer_sent;                 /* the client's connect call has returned successfully: ownership is final */
static qb_ipcc_connection_t *CC;

static int32_t s_accept(qb_ipcs_connection_t *c, uid_t u, gid_t g)
{
	accept_calls++; seen_uid = u; seen_gid = g;
	vp_log("  S: accept callback sees uid %u gid %u, decides %d", u, g, DECISIONS[di]);
	if (AUTHS[ai].set) { qb_ipcs_connection_auth_set(c, AUTHS[ai].u, AUTHS[ai].g, AUTHS[ai].m); vp_log("  S: auth_set(%u, %u, %o)", AUTHS[ai].u, AUTHS[ai].g, AUTHS[ai].m); }
	return DECISIONS[di];
}
static void s_created(qb_ipcs_connection_t *c) { (void)c; created_calls++; }
static int32_t s_closed(qb_ipcs_connection_t *c) { (void)c; return 0; }
static void s_destroyed(qb_ipcs_connection_t *c) { (void)c; }
static int32_t s_msg(qb_ipcs_connection_t *c, void *d, size_t s) { (void)c; (void)d; (void)s; msg_calls++; return 0; }

/* walk the private /dev/shm: every entry belongs to the one connection under test */
static void monitor(const char *call)
{
	DIR *d, *d2; struct dirent *e, *e2;
	struct stat st;
	char p[400], q[800];
	int saved = errno;
	if (vp_co_self() != W_server_co && strcmp(call, "final")) { errno = saved; return; }
	d = opendir("/dev/shm");
	if (!d) { errno = saved; return; }
	monitored++;
	while ((e = readdir(d))) {
		if (e->d_name[0] == '.') continue;
		snprintf(p, sizeof p, "/dev/shm/%s", e->d_name);
		if (lstat(p, &st)) continue;
		if (S_ISDIR(st.st_mode)) {
			if (st.st_mode & 0007) vp_fail("after the server's %s(): directory %s has mode %o: accessible to others", call, e->d_name, st.st_mode & 07777);
			if (answer_sent && (st.st_uid != want_uid || st.st_gid != want_gid))
				vp_fail("the connection directory is owned by %u:%u, the authorised owner is %u:%u (after %s)", st.st_uid, st.st_gid, want_uid, want_gid, call);
			d2 = opendir(p);
			if (!d2) continue;
			while ((e2 = readdir(d2))) {
				if (e2->d_name[0] == '.') continue;
				snprintf(q, sizeof q, "%s/%s", p, e2->d_name);
				if (lstat(q, &st)) continue;
				if ((st.st_mode & 0777) & ~want_mode)
					vp_fail("after the server's %s(): file %s has mode %o, the connection's mode is %o", call, e2->d_name, st.st_mode & 0777, want_mode);
				if (answer_sent && (st.st_uid != want_uid || st.st_gid != want_gid))
					vp_fail("file %s is owned by %u:%u, the authorised owner is %u:%u (after %s)", e2->d_name, st.st_uid, st.st_gid, want_uid, want_gid, call);
			}
			closedir(d2);
		} else if ((st.st_mode & 0777) & ~want_mode)
			vp_fail("after the server's %s(): file %s has mode %o, the connection's mode is %o", call, e->d_name, st.st_mode & 0777, want_mode);
	}
	closedir(d);
	errno = saved;
}

static void nap(int ms) { struct timespec ts = { ms / 1000, (long)(ms % 1000) * 1000000 }; nanosleep(&ts, NULL); }

static void client_main(void *arg)
{
	char listing[4096];
	int expect_ok, can_open, base_fds;
	(void)arg;
	base_fds = open_fd_count();
	/* can the client open files of that owner/mode read-write (it maps them), and enter the directory */
	can_open = CREDS[ci].u == 0 || (CREDS[ci].u == want_uid && (want_mode & 0600) == 0600) || (CREDS[ci].u != want_uid && CREDS[ci].g == want_gid && (want_mode & 0060) == 0060);
	expect_ok = DECISIONS[di] == 0;
	errno = 0;
	CC = qb_ipcc_connect(svc_name, 12400);
	vp_log("  C(uid %u gid %u): connect = %s", CREDS[ci].u, CREDS[ci].g, CC ? "ok" : strerror(errno));
	if (accept_calls != 1) vp_fail("the accept callback ran %d times for one connection attempt", accept_calls);
	if (seen_uid != CREDS[ci].u || seen_gid != CREDS[ci].g)
		vp_fail("the accept callback was given uid %u gid %u, the connecting process runs as %u:%u", seen_uid, seen_gid, CREDS[ci].u, CREDS[ci].g);
	if (!expect_ok) {
		if (CC) vp_fail("the accept callback refused with %d but the client's connect succeeded", DECISIONS[di]);
		if (errno != -DECISIONS[di]) vp_fail("the accept callback refused with %d, the client's connect failed with %d", DECISIONS[di], -errno);
	} else if (can_open && !CC) vp_fail("the connection was accepted and the client may open its files, but connect failed: %s", strerror(errno));
	if (CC) {
		struct qb_ipc_request_header h; unsigned char b[64];
		answer_sent = 1;
		monitor("final");
		memset(b, 0, sizeof b); h.id = 3; h.size = 64; memcpy(b, &h, sizeof h);
		if (qb_ipcc_send(CC, b, 64) != 64) vp_fail("send on the accepted connection failed");
		nap(20);
		monitor("final");
		if (msg_calls != 1) vp_fail("request of the accepted client reached the message callback %d times", msg_calls);
		qb_ipcc_disconnect(CC); CC = NULL;
	} else {
		/* a refused (or failed) client: nothing of it may remain, nothing it sends may reach the application */
		nap(50);
		if (msg_calls) vp_fail("the message callback ran for a peer that was refused");
	}
	answer_sent = 0;
	nap(100);
	/* the client's own temporary descriptors are gone by now: compare what is left */
	shm_listing(listing, sizeof listing);
	if (listing[0]) vp_fail("entries left in /dev/shm after the %s client went away: %s", expect_ok ? "accepted" : "refused", listing);
	if (open_fd_count() != base_fds) vp_fail("descriptor count %d after the client went away, %d before it connected", open_fd_count(), base_fds);
	W_stop_server = 1;
}

static void run(void)
{
	struct qb_ipcs_service_handlers h = { .connection_accept = s_accept, .connection_created = s_created, .msg_process = s_msg,
					      .connection_closed = s_closed, .connection_destroyed = s_destroyed };
	int cco;
	world_init_sched();
	vp_blocked_switch_cost = 1; vp_free_yield_cost = 1;
	shm_clean();
	monitored = accept_calls = msg_calls = created_calls = answer_sent = 0; CC = NULL;
	transport = vp_choose(2, "transport");
	ci = vp_choose(3, "client credentials"); di = vp_choose(4, "accept decision"); ai = vp_choose(4, "owner/mode chosen by the accept callback");
	want_uid = AUTHS[ai].set ? AUTHS[ai].u : CREDS[ci].u; want_gid = AUTHS[ai].set ? AUTHS[ai].g : CREDS[ci].g; want_mode = AUTHS[ai].m;
	vp_log("transport %s, client %u:%u, decision %d, authorised %u:%u mode %o", transport ? "socket" : "shm", CREDS[ci].u, CREDS[ci].g, DECISIONS[di], want_uid, want_gid, want_mode);
	world_start(transport ? QB_IPC_SOCKET : QB_IPC_SHM, &h, 0);
	W_fs_hook = monitor;
	W_server_co = vp_co_spawn(server_main, NULL, "server");
	w_adopt_main_fds(W_server_co);
	cco = vp_co_spawn(client_main, NULL, "client");
	W_cred[cco].set = 1; W_cred[cco].uid = CREDS[ci].u; W_cred[cco].gid = CREDS[ci].g;
	if (vp_co_run()) { vp_pruned(); return; }
	syscall(SYS_setresuid, 0, 0, -1); syscall(SYS_setresgid, 0, 0, -1);
	vp_count(1, (uint64_t)monitored);
	vp_outcome_u64((uint64_t)(created_calls * 4 + msg_calls) * 1000 + (uint64_t)(ci * 16 + di * 4 + ai));
	vp_state((uint64_t)transport * 64 + (uint64_t)(ci * 16 + di * 4 + ai));
	qb_ipcs_destroy(SV);
	qb_loop_destroy(SL);
}

static void init(void) { vp_count_name(1, "monitored_moments"); }

int main(int argc, char **argv)
{
	static struct vp_harness h = {
		.property = "C05", .name = "c05_ipc_admission", .level = "exploration",
		.run = run, .init = init, .batch = 1, .private_shm = 1, .timeout_s = 60,
		.rule = "the full product transport x client credentials {0:0, 1000:1000, 1001:1002} x accept decision {0, -EACCES, -EPERM, -ENOMEM} x "
			"owner/mode chosen in the accept callback {untouched, 1000:1000 0600, 1001:1002 0660, 0:1002 0640}; the client coroutine runs under "
			"its own real+effective ids (per-thread setresuid/setresgid), so credentials and permission checks are the kernel's; after EVERY "
			"wrapped file-system call of the server (mkdtemp, open, chmod, chown, ftruncate, bind, unlink, rmdir) the private /dev/shm is walked: "
			"no directory with 'other' bits, no file more permissive than the connection's mode; once the client's connect has returned the owner "
			"of every entry must be the authorised one; refusal = connect fails with that error and nothing remains; distinct = configurations x outcome",
		.assumptions = { "needs root and CAP_SYS_ADMIN (private tmpfs, credential switching)", "one canonical schedule per configuration", NULL },
	};
	return vp_main(argc, argv, &h);
}
