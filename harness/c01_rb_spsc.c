/* C01: one writer || one reader on a real ring, every interleaving at access granularity.
 * lib/ringbuffer.c is compiled with the TSan ABI: each of its loads/stores is a scheduling point. */
#include "rb_common.h"
#include "vp_sched.h"
#include <semaphore.h>

extern int vp_memcpy_split;

/* scripts */
enum { W_WRITE, W_ALLOC };
enum { R_READ, R_READ_SMALL, R_PEEK };
struct wop { int kind; size_t len; };
struct rop { int kind; };
#define MAXOPS 4
static struct wop WS[MAXOPS];
static struct rop RS[MAXOPS];
static int nw, nr, wlen_script, rlen_script;
static size_t WLENS[] = { 1, 2000, 4083, 5, 0 };
static int ring_S = 4083;     /* requested ring size; 9000 gives a ring of three pages (not a power of two) */
static int nwlens;

/* oracle state (shared between the coroutines, part of the state key) */
static int w_started[MAXOPS], w_finished[MAXOPS], w_ok[MAXOPS];   /* per writer op */
static int rd_next;                      /* first writer op a read may still return */
static int r_result[MAXOPS];             /* per reader op: -1 empty, -2 nobufs, >=0 writer op index returned */
static int r_done;
static int read_early[MAXOPS];           /* chunk i was returned before write i returned */
static int rel_stores, acq_loads, bad_order;
static struct ring *R;
static int nosem, npos_used, stale_both;
static unsigned char wbuf[16384], rbuf[16384];

static void atomic_hook(const volatile void *a, int is_store, int mo)
{
	if ((char *)a < R->data || (char *)a >= R->data + 2 * R->data_len) return;
	if (is_store) { if (mo >= __ATOMIC_RELEASE) rel_stores++; else bad_order = 1; }
	else { if (mo == __ATOMIC_ACQUIRE || mo >= __ATOMIC_ACQ_REL) acq_loads++; else bad_order = 2; }
}

static int known_region(const volatile void *a, int size, int w)
{
	/* visible = the memory the two parties really share: the header mapping and both halves of the data
	   mapping.  The qb_ringbuffer_t handle is per process in a real deployment (and never written after
	   qb_rb_open), so its fields are not interleaving points. */
	const char *p = (const char *)a;
	(void)size; (void)w;
	if ((p >= R->hdr && p < R->hdr + R->hdr_len) || (p >= R->data && p < R->data + 2 * R->data_len)) { vp_count(1, 1); return 1; }
	vp_count(2, 1);
	return 0;
}

static void writer(void *arg)
{
	int i;
	(void)arg;
	for (i = 0; i < nw; i++) {
		ssize_t r;
		size_t len = WS[i].len;
		vp_local_reset(100 + i);
		pat_fill(wbuf, len, PAT_INDEX, 40 + i);
		w_started[i] = 1;
		if (WS[i].kind == W_WRITE) {
			r = qb_rb_chunk_write(R->rb, wbuf, len);
		} else {
			/* reserve more than is committed afterwards, as the blackbox logger does (room for the longest record,
			   then the real length): where the next chunk starts is only known at commit time */
			unsigned char *d = qb_rb_chunk_alloc(R->rb, len + 35);
			if (!d) r = -errno;
			else {
				int32_t c;
				memcpy(d, wbuf, len);
				vp_point("fill done");
				c = qb_rb_chunk_commit(R->rb, len);
				r = c < 0 ? c : (ssize_t)len;
			}
		}
		vp_log("W: %s(%zu) = %zd", WS[i].kind == W_WRITE ? "write" : "alloc(+35)+commit", len, r);
		if (r == (ssize_t)len) w_ok[i] = 1;
		else if (r != -EAGAIN) vp_fail("write of %zu bytes returned %zd (neither success nor -EAGAIN)", len, r);
		else if (read_early[i]) vp_fail("write #%d reported -EAGAIN but its chunk was returned by a read", i);
		w_finished[i] = 1;
		vp_local_mix((uint64_t)r);
	}
}

/* which writer op does the returned chunk belong to */
static int match_chunk(const unsigned char *b, ssize_t len, const char *what)
{
	int i;
	for (i = rd_next; i < nw; i++) {
		if (w_finished[i] && !w_ok[i]) continue;          /* refused: never published */
		if (!w_started[i]) break;
		if ((ssize_t)WS[i].len == len && pat_diff(b, (size_t)len, PAT_INDEX, 40 + i) < 0) {
			if (!w_finished[i]) read_early[i] = 1;
			return i;
		}
		break;                                            /* FIFO: only the oldest unread one may come */
	}
	vp_fail("%s returned a chunk of %zd bytes that is not the oldest unread committed chunk (expected write #%d%s): torn, stale, duplicated or out of order",
		what, len, rd_next, (rd_next < nw && !w_started[rd_next]) ? ", which has not even started" : "");
}

static void reader(void *arg)
{
	int i;
	(void)arg;
	for (i = 0; i < nr; i++) {
		ssize_t r;
		vp_local_reset(200 + i);
		if (RS[i].kind == R_PEEK) {
			void *p = NULL;
			r = qb_rb_chunk_peek(R->rb, &p, 0);
			if (r > 0 || (r == 0 && p != NULL)) {
				/* r == 0 is ambiguous by API (empty, or a zero-length chunk): p tells */
				int m;
				memcpy(rbuf, p, (size_t)r);
				m = match_chunk(rbuf, r, "peek");
				qb_rb_chunk_reclaim(R->rb);
				rd_next = m + 1; r_result[i] = m;
			} else r_result[i] = -1;
			vp_log("R: peek = %zd%s", r, r_result[i] >= 0 ? " ; reclaim" : "");
		} else {
			size_t cap = RS[i].kind == R_READ_SMALL ? 3 : sizeof rbuf;
			r = qb_rb_chunk_read(R->rb, rbuf, cap, 0);
			vp_log("R: read(buf=%zu) = %zd", cap, r);
			if (r >= 0) {
				int m;
				if ((size_t)r > cap) vp_fail("read returned %zd bytes into a buffer of %zu", r, cap);
				m = match_chunk(rbuf, r, "read");
				rd_next = m + 1; r_result[i] = m;
			} else if (r == -ENOBUFS) {
				/* must be the oldest unread chunk and it must really be larger than the buffer */
				int k = rd_next;
				while (k < nw && w_finished[k] && !w_ok[k]) k++;
				if (k >= nw || !w_started[k] || WS[k].len <= cap)
					vp_fail("read(buf=%zu) reported -ENOBUFS but the oldest unread chunk %s", cap, k < nw && w_started[k] ? "fits" : "does not exist");
				r_result[i] = -2;
			} else r_result[i] = -1;
		}
		vp_local_mix((uint64_t)r);
	}
	r_done = 1;
}

static uint64_t state_key(void)
{
	uint64_t k = ring_delta_hash(R);                  /* pointers, semaphore count, every data word */
	k = vp_hash(WS, sizeof(struct wop) * nw, k); k = vp_hash(RS, sizeof(struct rop) * nr, k);   /* the scripts */
	k = vp_hash(w_started, sizeof w_started, k); k = vp_hash(w_finished, sizeof w_finished, k); k = vp_hash(w_ok, sizeof w_ok, k);
	k = vp_hash(r_result, sizeof r_result, k); k = vp_hash(read_early, sizeof read_early, k);
	k = vp_hash(&rd_next, sizeof rd_next, k); k = vp_hash(&bad_order, sizeof bad_order, k);
	return k;
}

static void run(void)
{
	int i, c, np = 0, stale;
	uint32_t plist[8], p;

	nosem = vp_choose(2, "semaphore/none");
	WLENS[1] = (size_t)ring_S / 2 - 42; WLENS[2] = (size_t)ring_S;      /* two of the middle length fill the ring */
	R = ring_get((size_t)ring_S, (nosem ? QB_RB_FLAG_NO_SEMAPHORE : 0) | QB_RB_FLAG_SHARED_THREAD);
	plist[np++] = 0; plist[np++] = R->W - 1; plist[np++] = R->W - 2; plist[np++] = R->W - 3; plist[np++] = R->W - 500;
	p = plist[vp_choose(npos_used < np ? npos_used : np, "start position")];
	stale = (stale_both ? vp_choose(2, "stale content") : 0) ? -1 : PAT_LIVE;
	nw = wlen_script; nr = rlen_script;
	memset(WS, 0, sizeof WS); memset(RS, 0, sizeof RS);
	for (i = 0; i < nw; i++) {
		c = vp_choose(nwlens + 1, "writer op");
		if (c < nwlens) { WS[i].kind = W_WRITE; WS[i].len = WLENS[c]; }
		else { WS[i].kind = W_ALLOC; WS[i].len = 5; }
	}
	for (i = 0; i < nr; i++) RS[i].kind = vp_choose(3, "reader op");

	ring_position(R, stale, p);
	memset(w_started, 0, sizeof w_started); memset(w_finished, 0, sizeof w_finished); memset(w_ok, 0, sizeof w_ok);
	memset(read_early, 0, sizeof read_early);
	for (i = 0; i < MAXOPS; i++) r_result[i] = -9;
	rd_next = 0; r_done = 0; rel_stores = acq_loads = bad_order = 0;
	if (vp_tracing) {
		char line[200]; int l = 0;
		l += snprintf(line + l, sizeof line - l, "%s start=%u stale=%d W:", nosem ? "nosem" : "sem", p, stale);
		for (i = 0; i < nw; i++) l += snprintf(line + l, sizeof line - l, " %s(%zu)", WS[i].kind == W_WRITE ? "write" : "alloc+commit", WS[i].len);
		l += snprintf(line + l, sizeof line - l, "  R:");
		for (i = 0; i < nr; i++) l += snprintf(line + l, sizeof line - l, " %s", RS[i].kind == R_READ ? "read" : RS[i].kind == R_PEEK ? "peek+reclaim" : "read(small)");
		vp_logf("%s", line);
	}

	vp_sched_reset();
	vp_stack_size = 64 * 1024;
	vp_atomic_hook = atomic_hook;
	vp_access_filter = known_region;
	vp_set_state_fn(state_key);
	vp_co_spawn(writer, NULL, "writer");
	vp_co_spawn(reader, NULL, "reader");
	if (vp_co_run()) { vp_pruned(); return; }     /* merged into an already explored state */

	if (bad_order) vp_fail("the chunk marker is %s with a memory order weaker than %s", bad_order == 1 ? "stored" : "loaded", bad_order == 1 ? "release" : "acquire");
	{
		int okw = 0, reads = 0;
		for (i = 0; i < nw; i++) okw += w_ok[i];
		for (i = 0; i < nr; i++) reads += r_result[i] >= 0;
		if (rel_stores < okw) vp_fail("%d chunks were published but only %d release stores of the marker were seen", okw, rel_stores);
		if (reads && acq_loads < reads) vp_fail("%d chunks were consumed but only %d acquire loads of the marker were seen", reads, acq_loads);
	}
	/* both parties are between calls: the semaphore must count exactly the published unread chunks */
	{
		int unread = 0;
		for (i = rd_next; i < nw; i++) unread += w_ok[i];
		if (!nosem) {
			ssize_t q = qb_rb_chunks_used(R->rb);
			if (q != unread) vp_fail("semaphore says %zd chunks, %d successful writes are unread", q, unread);
		}
		vp_outcome_u64((uint64_t)unread * 16 + (uint64_t)rd_next);
		for (i = 0; i < nr; i++) vp_outcome_u64((uint64_t)(r_result[i] + 10));
	}
	/* sequential drain: nothing lost, nothing twice */
	for (;;) {
		ssize_t r = qb_rb_chunk_read(R->rb, rbuf, sizeof rbuf, 0);
		if (r < 0) break;
		rd_next = match_chunk(rbuf, r, "final drain") + 1;
	}
	for (i = rd_next; i < nw; i++) if (w_ok[i]) vp_fail("write #%d (%zu bytes) reported success but was never returned by any read", i, WS[i].len);
}

static void init(void)
{
	wlen_script = (int)vp_param("writer_ops", 2, 3);
	rlen_script = (int)vp_param("reader_ops", 2, 3);
	vp_memcpy_split = (int)vp_param("split_memcpy", 0, 1);
	nwlens = (int)vp_param("writer_lengths", 3, 5);
	npos_used = (int)vp_param("start_positions", 2, 5);
	stale_both = (int)vp_param("stale_both", 0, 1);
	ring_S = (int)vp_param("ring_size", 4083, 4083);
	vp_count_name(1, "shared_memory_accesses_as_scheduling_points");
	vp_count_name(2, "handle_field_accesses_not_scheduled");
}

int main(int argc, char **argv)
{
	static struct vp_harness h = {
		.property = "C01", .name = "c01_rb_spsc", .level = "model_checking",
		.run = run, .init = init, .batch = 500, .private_shm = 1, .timeout_s = 60,
		.rule = "writer script x reader script (all combinations of the op alphabets) on a real 4 KiB ring, with/without semaphore, start positions "
			"with header/payload straddling the wrap point, clean or marker-valued stale content; ALL interleavings of the two coroutines at the "
			"granularity of every load/store lib/ringbuffer.c makes (TSan-ABI callbacks), memcpy and semaphore calls, merged on an exact state key "
			"(ring header+data image, per-party hash of values read in the current call, oracle state): no preemption bound; states = distinct keys",
		.assumptions = { "sequentially consistent scheduler: weak-memory reorderings of plain accesses are not explored; the explicit memory orders "
				 "of the marker accesses are asserted instead (release store / acquire load)",
				 "a coroutine's local state is a function of the values it read since its call began (deterministic code)",
				 "64-bit state fingerprints (hash compaction)", NULL },
	};
	return vp_main(argc, argv, &h);
}
