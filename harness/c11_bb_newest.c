/* C11 (blackbox part): the round-trip mode of c15_bb_dump.c under the other property's name -- a dump taken after
   any record is an unbroken run of the newest records ending with the very last one */
#define VP_C11_TWIN 1
#include "c15_bb_dump.c"
