/* C04: server callbacks occur in the order accept, created, msg*, closed+, destroyed; nothing touches freed state */
#include "ipc_world.h"

#define NCL 2
static int transport, cdepth, sactions_max, nclients, free_cost, hs_deaths;
enum { ST_NONE, ST_ACCEPTED, ST_CREATED, ST_CLOSED, ST_DESTROYED };
struct conn { qb_ipcs_connection_t *c; int st, msgs, closed_calls, closed_retries_left, last_closed_ret, app_refs, destroyed_calls; };
#define MAXCONN 8
static struct conn CN[MAXCONN];
static int ncn, sactions_left, service_destroyed, in_callback;
static qb_ipcc_connection_t *CC[NCL];
static int c_co[NCL], c_dead[NCL];
static unsigned char sb[512];

static struct conn *cn_of(qb_ipcs_connection_t *c, int must)
{
	int i;
	for (i = ncn - 1; i >= 0; i--) if (CN[i].c == c && CN[i].st != ST_DESTROYED) return &CN[i];
	if (must) vp_fail("callback invoked for a connection object that is not alive (never accepted, or already destroyed)");
	return NULL;
}
static const char *stn[] = { "none", "accepted", "created", "closed", "destroyed" };

static void server_action(const char *where, qb_ipcs_connection_t *self);

static int32_t s_accept(qb_ipcs_connection_t *c, uid_t u, gid_t g)
{
	(void)u; (void)g;
	if (cn_of(c, 0)) vp_fail("accept callback invoked twice for one connection");
	if (ncn >= MAXCONN) vp_broken("too many connections");
	memset(&CN[ncn], 0, sizeof CN[ncn]);
	CN[ncn].c = c; CN[ncn].st = ST_ACCEPTED; CN[ncn].closed_retries_left = -1;
	vp_log("  S: accept(conn %d)", ncn);
	ncn++;
	return 0;
}
static void s_created(qb_ipcs_connection_t *c)
{
	struct conn *n = cn_of(c, 1);
	if (n->st != ST_ACCEPTED) vp_fail("created callback in state '%s'", stn[n->st]);
	n->st = ST_CREATED;
	vp_log("  S: created(conn %d)", (int)(n - CN));
	in_callback++; server_action("created", c); in_callback--;
}
static int32_t s_msg(qb_ipcs_connection_t *c, void *data, size_t size)
{
	struct conn *n = cn_of(c, 1);
	(void)data;
	if (n->st != ST_CREATED) vp_fail("message callback in state '%s' (only between created and closed)", stn[n->st]);
	n->msgs++;
	vp_log("  S: msg_process(conn %d, %zu bytes)", (int)(n - CN), size);
	in_callback++; server_action("msg_process", c); in_callback--;
	return 0;
}
static int32_t s_closed(qb_ipcs_connection_t *c)
{
	struct conn *n = cn_of(c, 1);
	int r;
	if (n->st != ST_CREATED && n->st != ST_CLOSED) vp_fail("closed callback in state '%s' (created was never reported)", stn[n->st]);
	if (n->st == ST_CLOSED && n->last_closed_ret == 0)
		vp_fail("closed callback invoked again although its last call returned 0");
	n->st = ST_CLOSED; n->closed_calls++;
	if (n->closed_retries_left == -1) n->closed_retries_left = vp_choose(3, "closed returns non-zero this many times");
	r = n->closed_retries_left > 0;
	if (r) n->closed_retries_left--; else n->closed_retries_left = 0;
	n->last_closed_ret = r;
	vp_log("  S: closed(conn %d) call %d returns %d", (int)(n - CN), n->closed_calls, r);
	in_callback++; server_action("closed", c); in_callback--;
	return r;
}
static void s_destroyed(qb_ipcs_connection_t *c)
{
	struct conn *n = cn_of(c, 1);
	if (n->st == ST_CREATED) vp_fail("destroyed callback without a closed callback although created had been reported");
	if (n->st == ST_CLOSED && n->last_closed_ret != 0) vp_fail("destroyed although the last closed callback asked to be called again");
	if (n->app_refs > 0) vp_fail("destroyed callback while the application still holds %d reference(s) it took", n->app_refs);
	n->destroyed_calls++;
	vp_log("  S: destroyed(conn %d)", (int)(n - CN));
	n->st = ST_DESTROYED;
}

/* one application action on the server side */
static void server_action(const char *where, qb_ipcs_connection_t *self)
{
	struct { int code, idx; } m[40];
	int n = 0, i, c;
	enum { A_NONE, A_DISC, A_EVENT, A_REF, A_UNREF, A_ITER, A_RATE, A_DESTROY };
	if (sactions_left <= 0 || !W_free_choices || service_destroyed) return;
	m[n].code = A_NONE; m[n++].idx = 0;
	for (i = 0; i < ncn; i++) {
		if (CN[i].st == ST_DESTROYED || CN[i].st == ST_NONE) continue;
		/* the application may use a connection object it knows about: from created on, or the one handed to this callback */
		if (CN[i].st < ST_CREATED && CN[i].c != self) continue;
		m[n].code = A_DISC; m[n++].idx = i;
		if (CN[i].st == ST_CREATED) { m[n].code = A_EVENT; m[n++].idx = i; }
		m[n].code = A_REF; m[n++].idx = i;
		if (CN[i].app_refs > 0) { m[n].code = A_UNREF; m[n++].idx = i; }
	}
	m[n].code = A_ITER; m[n++].idx = 0;
	m[n].code = A_RATE; m[n++].idx = 0;
	if (!in_callback) { m[n].code = A_DESTROY; m[n++].idx = 0; }
	c = vp_choose(n, "server action");
	if (m[c].code == A_NONE) return;
	sactions_left--;
	i = m[c].idx;
	switch (m[c].code) {
	case A_DISC: vp_log("  S[%s]: qb_ipcs_disconnect(conn %d)", where, i); qb_ipcs_disconnect(CN[i].c); break;
	case A_EVENT: {
		struct qb_ipc_response_header h; ssize_t r;
		memset(sb, 0, sizeof sb); h.id = 7; h.size = 100; h.error = 0; memcpy(sb, &h, sizeof h);
		r = qb_ipcs_event_send(CN[i].c, sb, 100);
		vp_log("  S[%s]: event_send(conn %d) = %zd", where, i, r);
		break; }
	case A_REF: qb_ipcs_connection_ref(CN[i].c); CN[i].app_refs++; vp_log("  S[%s]: connection_ref(conn %d)", where, i); break;
	case A_UNREF: CN[i].app_refs--; vp_log("  S[%s]: connection_unref(conn %d)", where, i); qb_ipcs_connection_unref(CN[i].c); break;
	case A_ITER: {
		qb_ipcs_connection_t *it, *nx; int cnt = 0;
		for (it = qb_ipcs_connection_first_get(SV); it; it = nx) {
			struct conn *k = cn_of(it, 1);
			(void)k; cnt++;
			nx = qb_ipcs_connection_next_get(SV, it);
			qb_ipcs_connection_unref(it);
		}
		vp_log("  S[%s]: iterated %d connections", where, cnt);
		break; }
	case A_RATE: qb_ipcs_request_rate_limit(SV, QB_IPCS_RATE_OFF); qb_ipcs_request_rate_limit(SV, QB_IPCS_RATE_NORMAL); vp_log("  S[%s]: rate_limit OFF (flow control on for every listed connection), NORMAL", where); break;
	default:
		vp_log("  S[%s]: qb_ipcs_destroy", where);
		qb_ipcs_destroy(SV); service_destroyed = 1;
		break;
	}
}
static void server_turn(void)
{
	/* at iteration boundaries the application acts only when the set of connections or their states changed
	   since it was last asked: idle iterations are not separate moments as far as the property is concerned */
	static uint64_t last_sig;
	uint64_t sig = 7 + (uint64_t)sactions_left;
	int i;
	for (i = 0; i < ncn; i++) sig = sig * 131 + (uint64_t)CN[i].st * 16 + (uint64_t)CN[i].app_refs * 4 + (uint64_t)(CN[i].msgs > 0);
	if (ncn == 0) { last_sig = 0; return; }
	if (sig == last_sig) return;
	last_sig = sig;
	server_action("loop", NULL);
}

static int done_count;
/* once every client script is over (or its client was killed) the server settles and the run ends (harness logic, no libqb calls) */
static void finishing(void)
{
	struct timespec ts = { 0, 200000000 };
	int i;
	/* what the scripts left queued is still dispatched with the application free to act in the callbacks */
	nanosleep(&ts, NULL);
	W_free_choices = 0;
	nanosleep(&ts, NULL);
	/* now every still connected client goes away */
	for (i = 0; i < nclients; i++) if (c_dead[i] == 2 && CC[i]) w_close_fds_of(c_co[i]);
	nanosleep(&ts, NULL); nanosleep(&ts, NULL);
	W_stop_server = 1;
}
static void finish_script(int id) { (void)id; if (++done_count >= nclients) finishing(); }
static void finisher_main(void *arg) { (void)arg; finishing(); }
/* a client killed in the middle of a call cannot finish anything itself */
static void on_death(int co) { w_close_fds_of(co); if (++done_count >= nclients) vp_co_spawn(finisher_main, NULL, "finisher"); }

static void client_main(void *arg)
{
	int id = (int)(intptr_t)arg, step;
	unsigned char buf[256];
	for (step = 0; step < cdepth; step++) {
		int c;
		vp_yield_free("client op boundary");
		if (!CC[id]) {
			c = vp_choose(2 + hs_deaths, "client op (unconnected)");
			if (c == 0) {
				CC[id] = qb_ipcc_connect(svc_name, 12400);
				vp_log("  C%d: connect = %s", id, CC[id] ? "ok" : strerror(errno));
			} else if (c == 1) break;
			else {
				/* the client is killed in the middle of the handshake: just before the J-th wrapped call the server makes from now on */
				vp_log("  C%d: connect, to be killed just before the server's call #%d from now", id, c - 1);
				c_dead[id] = 1;
				w_hit_arm(vp_co_self(), W_server_co, c - 1);
				CC[id] = qb_ipcc_connect(svc_name, 12400);
				/* the handshake was over before that moment: dies now */
				W_hit_done = 1;
				vp_log("  C%d: connect = %s, dies", id, CC[id] ? "ok" : strerror(errno));
				w_close_fds_of(vp_co_self());
				finish_script(id);
				return;
			}
		} else {
			c = vp_choose(3, "client op");
			if (c == 0) {
				struct qb_ipc_request_header h; ssize_t r;
				memset(buf, 0, sizeof buf); h.id = 5; h.size = 64; memcpy(buf, &h, sizeof h);
				r = qb_ipcc_send(CC[id], buf, 64);
				vp_log("  C%d: send = %zd", id, r);
			} else if (c == 1) {
				qb_ipcc_disconnect(CC[id]); CC[id] = NULL;
				vp_log("  C%d: disconnect", id);
			} else {
				vp_log("  C%d: dies", id);
				c_dead[id] = 1;
				w_close_fds_of(vp_co_self());
				finish_script(id);
				return;
			}
		}
	}
	c_dead[id] = 2;    /* script over: the process keeps its connection open and idles */
	finish_script(id);
}

static void run(void)
{
	struct qb_ipcs_service_handlers h = { .connection_accept = s_accept, .connection_created = s_created, .msg_process = s_msg,
					      .connection_closed = s_closed, .connection_destroyed = s_destroyed };
	int i;
	world_init_sched();
	ncn = 0; service_destroyed = 0; in_callback = 0; sactions_left = sactions_max; done_count = 0;
	memset(CC, 0, sizeof CC); memset(c_dead, 0, sizeof c_dead);
	transport = vp_choose(2, "transport");
	vp_log("transport %s", transport ? "socket" : "shm");
	world_start(transport ? QB_IPC_SOCKET : QB_IPC_SHM, &h, 0);
	W_server_turn = server_turn;
	W_free_choices = 1;
	vp_free_yield_cost = free_cost;
	W_server_co = vp_co_spawn(server_main, NULL, "server");
	w_adopt_main_fds(W_server_co);        /* the service was set up in the main context: those descriptors are the server's */
	for (i = 0; i < nclients; i++) c_co[i] = vp_co_spawn(client_main, (void *)(intptr_t)i, i ? "client1" : "client0");
	W_on_death = on_death;
	if (vp_co_run()) { vp_pruned(); return; }
	if (!service_destroyed) { qb_ipcs_destroy(SV); service_destroyed = 1; }
	/* let the retries of closed (queued jobs) run, then the application drops the references it still holds */
	{
		int guard, phase;
		for (phase = 0; phase < 2; phase++) {
			for (guard = 0; guard < 6; guard++) {
				W_stop_server = 0;
				qb_loop_job_add(SL, QB_LOOP_LOW, SL, (qb_loop_job_dispatch_fn)qb_loop_stop);
				qb_loop_run(SL);
			}
			if (phase == 0) for (i = 0; i < ncn; i++) {
				if (CN[i].app_refs > 0 && CN[i].st == ST_DESTROYED) vp_fail("connection %d was destroyed while the application held a reference", i);
				while (CN[i].app_refs > 0) { CN[i].app_refs--; qb_ipcs_connection_unref(CN[i].c); }
			}
		}
	}
	for (i = 0; i < ncn; i++) {
		if (CN[i].st != ST_DESTROYED) vp_fail("connection %d (state '%s') was never destroyed although its client is gone and the service was destroyed", i, stn[CN[i].st]);
		if (CN[i].destroyed_calls != 1) vp_fail("destroyed callback ran %d times for connection %d", CN[i].destroyed_calls, i);
	}
	{ uint64_t hh = 0; for (i = 0; i < ncn; i++) hh = hh * 131 + (uint64_t)CN[i].msgs * 8 + (uint64_t)CN[i].closed_calls; vp_outcome_u64(hh + (uint64_t)ncn); vp_state(hh ^ ((uint64_t)ncn << 50) ^ ((uint64_t)transport << 55)); }
	qb_loop_destroy(SL);
}

static void init(void)
{
	cdepth = (int)vp_param("client_ops", 3, 3);
	sactions_max = (int)vp_param("server_actions", 1, 2);
	nclients = (int)vp_param("clients", 1, 2);
	free_cost = (int)vp_param("voluntary_switch_costs", 0, 0);
	hs_deaths = (int)vp_param("handshake_death_points", 0, 0);
}

int main(int argc, char **argv)
{
	static struct vp_harness h = {
		.property = "C04", .name = "c04_ipc_callbacks", .level = "model_checking",
		.run = run, .init = init, .batch = 1, .private_shm = 1, .timeout_s = 60,
		.rule = "1-2 real clients (each a script of <= client_ops operations over connect, send, disconnect, die, idle) against a real server on "
			"both transports; at every loop-iteration boundary and inside every created/msg_process/closed callback the application takes "
			"one of {nothing, qb_ipcs_disconnect(any known connection), event_send, connection_ref, connection_unref (only references it "
			"holds), iterate the connection list, change the rate limit, qb_ipcs_destroy (outside callbacks)}, at most server_actions "
			"non-trivial actions per run; the closed callback returns non-zero 0-2 times; all interleavings of client operations and server "
			"iterations; oracle: per-connection automaton accept -> created -> msg* -> closed+ -> destroyed, destroyed exactly once and never "
			"while the application holds a reference, everything destroyed in the end, ASan for any touch of freed connection/service state",
		.assumptions = { "one forked process per execution", "a dying client = its descriptors are closed", NULL },
	};
	return vp_main(argc, argv, &h);
}
