/* C20: handle database — all operation histories against a reference model */
#include "vp.h"
#include <qb/qbhdb.h>
#include <errno.h>
#include <stdio.h>
#include <string.h>

#define MAXOBJ 6
enum { ST_ACTIVE, ST_PENDING, ST_DEAD };
struct obj { qb_handle_t h; uint32_t slot; int st, ref, dtor; void *inst; };
static struct obj O[MAXOBJ];
static int nobj, depth, maxobj;
static struct qb_hdb db;
static long rnd_calls;

long __wrap_random(void);
long __wrap_random(void)
{
	/* deterministic check words: an occasional 0 exercises the retry loop */
	rnd_calls++;
	if (rnd_calls % 3 == 1) return 0;
	return 1000 + rnd_calls;
}

static void dtor(void *inst)
{
	int id = *(int *)inst;
	if (id < 0 || id >= nobj) vp_fail("destructor called with an instance that carries no live tag (%d)", id);
	if (O[id].inst != inst) vp_fail("destructor got a different instance than the one handed out for object %d", id);
	O[id].dtor++;
	if (O[id].dtor > 1) vp_fail("destructor ran %d times for object %d", O[id].dtor, id);
}

/* which model object does handle value v denote right now (-1: none) */
static int resolve(qb_handle_t v)
{
	int i;
	uint32_t slot = (uint32_t)(v & 0xffffffffu);
	int32_t check = (int32_t)(v >> 32);
	for (i = 0; i < nobj; i++) {
		if (O[i].st == ST_DEAD || O[i].slot != slot) continue;
		if (check == -1 || v == O[i].h) return i;
	}
	return -1;
}

static uint64_t model_hash(void)
{
	uint64_t h = nobj;
	int i;
	for (i = 0; i < nobj; i++) { uint64_t t[4] = { O[i].slot, (uint64_t)O[i].st, (uint64_t)O[i].ref, O[i].h }; h = vp_hash(t, sizeof t, h); }
	return h;
}

static void audit_refcounts(const char *after)
{
	int i;
	for (i = 0; i < nobj; i++) {
		int32_t r;
		if (O[i].st == ST_DEAD) continue;
		r = qb_hdb_handle_refcount_get(&db, O[i].h);
		if (r != O[i].ref) vp_fail("after %s: refcount_get(object %d) = %d, model (1 + gets - puts) = %d", after, i, r, O[i].ref);
	}
}

static void drop(int i, const char *what)
{
	O[i].ref--;
	if (O[i].ref == 0) {
		if (O[i].dtor != 1) vp_fail("%s: count of object %d reached zero but destructor ran %d times", what, i, O[i].dtor);
		O[i].st = ST_DEAD;
	} else if (O[i].dtor != 0) vp_fail("%s: destructor of object %d ran while %d references remain", what, i, O[i].ref);
}

static void do_iterate(void)
{
	int seen[MAXOBJ] = { 0 }, i;
	void *inst;
	qb_handle_t h;
	qb_hdb_iterator_reset(&db);
	while (qb_hdb_iterator_next(&db, &inst, &h) == 0) {
		int o = resolve(h);
		if (o < 0 || O[o].st != ST_ACTIVE || h != O[o].h) vp_fail("iteration returned handle %llx which is not a live, undestroyed object", (unsigned long long)h);
		if (inst != O[o].inst) vp_fail("iteration returned wrong instance for object %d", o);
		if (seen[o]++) vp_fail("iteration visited object %d twice", o);
		if (qb_hdb_handle_put(&db, h) != 0) vp_fail("put after iteration get failed");
	}
	for (i = 0; i < nobj; i++)
		if (O[i].st == ST_ACTIVE && !seen[i]) vp_fail("iteration skipped undestroyed object %d", i);
	vp_log("iterate: ok");
}

static const char *opn[] = { "get", "put", "destroy", "refcount_get" };

static void run(void)
{
	int step, i;
	qb_handle_t bogus[5];
	nobj = 0; rnd_calls = 0;
	memset(O, 0, sizeof O);
	qb_hdb_create(&db);
	db.destructor = dtor;
	for (step = 0; step < depth; step++) {
		struct { int op; qb_handle_t h; } alt[64];
		int n = 0, c, o, nslots = 0;
		qb_handle_t h;
		for (i = 0; i < nobj; i++) if (O[i].slot + 1 > (uint32_t)nslots) nslots = O[i].slot + 1;
		bogus[0] = 0;                                            /* never issued: check 0, slot 0 */
		bogus[1] = qb_hdb_nocheck_convert(0);                    /* documented wildcard on slot 0 */
		bogus[2] = ((uint64_t)0x7777 << 32) | 0;                 /* wrong check on slot 0 */
		bogus[3] = ((uint64_t)1002 << 32) | (uint32_t)(nslots + 2);  /* slot beyond anything issued */
		bogus[4] = qb_hdb_nocheck_convert(1);                    /* wildcard on slot 1 */
		for (i = 0; i < nobj + 5; i++) {
			int op;
			h = i < nobj ? O[i].h : bogus[i - nobj];
			o = resolve(h);
			for (op = 0; op < 4; op++) {
				if (op == 2 && o >= 0 && O[o].st == ST_PENDING) continue; /* second destroy: not specified */
				alt[n].op = op; alt[n].h = h; n++;
			}
		}
		c = vp_choose(n + 3, "op");
		if (c == n + 2) {
			/* a create that runs out of memory fails and leaves no trace (the next create starts from scratch) */
			qb_handle_t hh = 0x5a5a5a5a5a5a5a5aULL;
			int32_t r = qb_hdb_handle_create(&db, (int32_t)0x7fffffff, &hh);      /* the allocator returns NULL for this one */
			vp_log("create(instance too big to allocate) = %d", r);
			if (r == 0) vp_broken("an allocation of 2 GiB went through: the sanitizer's allocation limit is not in effect");
			if (r != -ENOMEM) vp_fail("create with a failing allocation returned %d, not -ENOMEM", r);
		} else if (c == n) {
			if (nobj >= maxobj) { vp_pruned(); break; }
			{
				int32_t r = qb_hdb_handle_create(&db, 16, &h);
				void *inst = NULL;
				if (r != 0) vp_fail("create failed: %d", r);
				for (i = 0; i < nobj; i++)
					if (O[i].st != ST_DEAD && O[i].slot == (uint32_t)h) vp_fail("create reused slot %u of live object %d", (uint32_t)h, i);
				for (i = 0; i < nobj; i++) if (O[i].h == h) vp_fail("create issued a handle value used before");
				if ((h >> 32) == 0 || (int32_t)(h >> 32) < 0) vp_fail("create issued check word %d", (int32_t)(h >> 32));
				if (qb_hdb_handle_get(&db, h, &inst) != 0 || !inst) vp_fail("fresh handle does not resolve");
				for (i = 0; i < 16; i++) if (((char *)inst)[i]) vp_fail("fresh instance not zeroed");
				if (qb_hdb_handle_put(&db, h) != 0) vp_fail("put of fresh handle failed");
				O[nobj].h = h; O[nobj].slot = (uint32_t)h; O[nobj].st = ST_ACTIVE; O[nobj].ref = 1; O[nobj].inst = inst;
				*(int *)inst = nobj;
				vp_log("create -> object %d handle %llx", nobj, (unsigned long long)h);
				nobj++;
			}
		} else if (c == n + 1) {
			do_iterate();
		} else {
			int op = alt[c].op;
			int32_t r;
			void *inst = (void *)1;
			h = alt[c].h;
			o = resolve(h);
			switch (op) {
			case 0:
				r = qb_hdb_handle_get(&db, h, &inst);
				vp_log("get(%llx) = %d   [model object %d]", (unsigned long long)h, r, o);
				if (o >= 0 && O[o].st == ST_ACTIVE) {
					if (r != 0 || inst != O[o].inst) vp_fail("get of live handle %llx failed or returned wrong instance (r=%d)", (unsigned long long)h, r);
					O[o].ref++;
				} else if (r == 0) vp_fail("get(%llx) succeeded on a %s handle", (unsigned long long)h, o >= 0 ? "destroyed (pending removal)" : "stale or never issued");
				else if (inst != NULL) vp_fail("failed get left *instance set");
				break;
			case 1:
				r = qb_hdb_handle_put(&db, h);
				vp_log("put(%llx) = %d   [model object %d]", (unsigned long long)h, r, o);
				if (o >= 0) {
					if (r != 0) vp_fail("put of outstanding reference on %llx refused: %d", (unsigned long long)h, r);
					drop(o, "put");
				} else if (r == 0) vp_fail("put(%llx) accepted a stale or never issued handle", (unsigned long long)h);
				break;
			case 2:
				r = qb_hdb_handle_destroy(&db, h);
				vp_log("destroy(%llx) = %d   [model object %d]", (unsigned long long)h, r, o);
				if (o >= 0) {
					if (r != 0) vp_fail("destroy of live handle refused: %d", r);
					O[o].st = ST_PENDING;
					drop(o, "destroy");
				} else if (r == 0) vp_fail("destroy(%llx) accepted a stale or never issued handle", (unsigned long long)h);
				break;
			default:
				r = qb_hdb_handle_refcount_get(&db, h);
				vp_log("refcount_get(%llx) = %d   [model object %d]", (unsigned long long)h, r, o);
				if (o >= 0) {
					if (r != O[o].ref) vp_fail("refcount_get = %d, model = %d", r, O[o].ref);
				} else if (r >= 0) vp_fail("refcount_get(%llx) = %d on a stale or never issued handle", (unsigned long long)h, r);
				break;
			}
			audit_refcounts(opn[op]);
		}
		vp_state(model_hash());
	}
	/* epilogue: everything that is still alive must be reachable, iterable and destructible once */
	do_iterate();
	audit_refcounts("end");
	{
		/* slot reuse must still work: a stuck slot would make the database grow instead */
		int live = 0, maxslot = -1;
		qb_handle_t h;
		for (i = 0; i < nobj; i++) if (O[i].st != ST_DEAD) { live++; }
		for (i = 0; i < nobj; i++) if ((int)O[i].slot > maxslot) maxslot = O[i].slot;
		if (nobj > 0 && live < maxslot + 1) {
			if (qb_hdb_handle_create(&db, 16, &h) != 0) vp_fail("final create failed");
			if ((int)(uint32_t)h > maxslot) vp_fail("a free slot exists (%d live objects, %d slots) but create grew the table to slot %u: a slot is stuck", live, maxslot + 1, (uint32_t)h);
			{ void *inst; qb_hdb_handle_get(&db, h, &inst); *(int *)inst = nobj; qb_hdb_handle_put(&db, h);
			  O[nobj].h = h; O[nobj].slot = (uint32_t)h; O[nobj].st = ST_ACTIVE; O[nobj].ref = 1; O[nobj].inst = inst; nobj++; }
		}
	}
	for (i = 0; i < nobj; i++) {
		if (O[i].st == ST_ACTIVE) {
			if (qb_hdb_handle_destroy(&db, O[i].h) != 0) vp_fail("final destroy failed");
			O[i].st = ST_PENDING; drop(i, "final destroy");
		}
		while (O[i].st != ST_DEAD) {
			if (qb_hdb_handle_put(&db, O[i].h) != 0) vp_fail("final put failed");
			drop(i, "final put");
		}
		if (O[i].dtor != 1) vp_fail("object %d: destructor ran %d times", i, O[i].dtor);
	}
	{ uint64_t k = model_hash(); vp_outcome(&k, 8); }
	qb_hdb_destroy(&db);
}

static void init(void)
{
	depth = (int)vp_param("depth", 4, 5);
	maxobj = (int)vp_param("max_objects", 3, 3);
}

int main(int argc, char **argv)
{
	static struct vp_harness h = {
		.property = "C20", .name = "c20_hdb", .level = "model_checking",
		.run = run, .init = init, .batch = 20000,
		.rule = "every history of length <= depth over {create, iterate, get/put/destroy/refcount_get on each issued handle "
			"(live, destroyed, freed, slot since reused) and on never-issued values (0, wrong check, slot beyond range, "
			"no-check wildcard)} run on the real qb_hdb against a slot/refcount model; states = distinct model states, "
			"distinct = distinct final model states",
		.assumptions = { "random() is replaced by a deterministic sequence (distinct check words, a zero every third call)",
				 "a second destroy on an object that is already pending removal is outside the alphabet (not specified)", NULL },
	};
	return vp_main(argc, argv, &h);
}
