/* C15 (+ blackbox part of C11): blackbox dump files — faithful round trip, and no crash on damaged files */
#include "vp.h"
#include <qb/qblog.h>
#include <qb/qbrb.h>
#include <qb/qbdefs.h>
#include <errno.h>
#include <stdio.h>
#include <stdarg.h>
#include <string.h>
#include <stdlib.h>
#include <unistd.h>
#include <fcntl.h>
#include <dirent.h>
#include <syslog.h>
#include <time.h>
#include <sys/stat.h>
#include "mmap_guard.h"     /* an index that runs off a ring rebuilt from a file faults instead of reading a neighbour */

/* ---- the blackbox logger must stay inside the chunk it reserved: what it commits is never more than what it asked for ---- */
void *__real_qb_rb_chunk_alloc(qb_ringbuffer_t *rb, size_t len);
void *__wrap_qb_rb_chunk_alloc(qb_ringbuffer_t *rb, size_t len);
int32_t __real_qb_rb_chunk_commit(qb_ringbuffer_t *rb, size_t len);
int32_t __wrap_qb_rb_chunk_commit(qb_ringbuffer_t *rb, size_t len);
static size_t reserved_len; static int reserved_valid;
void *__wrap_qb_rb_chunk_alloc(qb_ringbuffer_t *rb, size_t len) { void *p = __real_qb_rb_chunk_alloc(rb, len); reserved_len = len; reserved_valid = p != NULL; return p; }
int32_t __wrap_qb_rb_chunk_commit(qb_ringbuffer_t *rb, size_t len)
{
	if (reserved_valid && len > reserved_len) vp_fail("the blackbox logger committed a record of %zu bytes into a chunk it had reserved %zu bytes for", len, reserved_len);
	reserved_valid = 0;
	return __real_qb_rb_chunk_commit(rb, len);
}

static int mode;                 /* 0 damage, 1 round trip after every record */
static int depth, byteflip;

/* ---- virtual wall clock: each log call gets its own timestamp ---- */
static long clk_sec = 1700000000, clk_nsec;
int __wrap_clock_gettime(clockid_t id, struct timespec *ts);
int __wrap_clock_gettime(clockid_t id, struct timespec *ts) { (void)id; ts->tv_sec = clk_sec; ts->tv_nsec = clk_nsec; return 0; }

/* ---- captured stdout of the library ---- */
static char cap[1 << 18]; static size_t capn; static int capturing;
int __wrap_printf(const char *fmt, ...);
int __wrap_printf(const char *fmt, ...)
{
	va_list ap; int n;
	va_start(ap, fmt);
	if (!capturing) { n = vprintf(fmt, ap); va_end(ap); return n; }     /* the engine's own output */
	n = vsnprintf(cap + capn, sizeof cap - capn, fmt, ap);
	va_end(ap);
	if (n > 0) capn += (size_t)n < sizeof cap - capn ? (size_t)n : sizeof cap - capn - 1;
	return n;
}
int __wrap_puts(const char *s);
int __wrap_puts(const char *s) { if (!capturing) return fputs(s, stdout) < 0 ? EOF : fputc('\n', stdout); return __wrap_printf("%s\n", s); }
int __wrap_putchar(int c);
int __wrap_putchar(int c) { if (!capturing) return fputc(c, stdout); return __wrap_printf("%c", c); }

/* ---- records ---- */
struct rec { int prio; uint32_t line, tags; long sec, nsec; char fn[72]; char msg[2100]; };
static struct rec LOGGED[64]; static int nlogged;
static const char *prio_names[] = { "emerg", "alert", "crit", "error", "warning", "notice", "info", "debug", "trace" };
static char dir[128], dumpf[160], dmgf[160];

static int cur_line_len, bb_stderr_too, bb_devnull = -1;
static int bb_line_len;      /* > 0: the blackbox target is configured for longer lines than the default */
static void bb_start(int size)
{
	int r;
	qb_log_init("vpbb", LOG_USER, LOG_EMERG);
	qb_log_ctl(QB_LOG_SYSLOG, QB_LOG_CONF_ENABLED, QB_FALSE);
	r = qb_log_ctl(QB_LOG_BLACKBOX, QB_LOG_CONF_SIZE, size);
	if (r) vp_broken("blackbox size refused: %d", r);
	qb_log_filter_ctl(QB_LOG_BLACKBOX, QB_LOG_FILTER_ADD, QB_LOG_FILTER_FILE, "bb.c", LOG_TRACE);   /* not libqb's own trace messages */
	if (bb_stderr_too) {
		/* a text target in a lower slot formats the same call before the blackbox stores it */
		qb_log_filter_ctl(QB_LOG_STDERR, QB_LOG_FILTER_ADD, QB_LOG_FILTER_FILE, "bb.c", LOG_TRACE);
		qb_log_ctl(QB_LOG_STDERR, QB_LOG_CONF_ENABLED, QB_TRUE);
	}
	if (bb_line_len) { r = qb_log_ctl(QB_LOG_BLACKBOX, QB_LOG_CONF_MAX_LINE_LEN, bb_line_len); if (r) vp_broken("blackbox line length refused: %d", r); }
	r = qb_log_ctl(QB_LOG_BLACKBOX, QB_LOG_CONF_ENABLED, QB_TRUE);
	if (r) vp_broken("blackbox enable failed: %d", r);
	nlogged = 0;
}

static void bb_log_inner(int kind);
static void bb_log(int kind)
{
	if (bb_stderr_too) {
		int save = dup(2);
		if (bb_devnull < 0) bb_devnull = open("/dev/null", O_WRONLY);
		dup2(bb_devnull, 2);
		bb_log_inner(kind);
		dup2(save, 2); close(save);
	} else bb_log_inner(kind);
}
static void bb_log_inner(int kind)
{
	struct rec *r = &LOGGED[nlogged];
	static char big[600];
	int n = nlogged;
	clk_sec += 61; clk_nsec = (long)(n + 1) * 7000000;
	r->sec = clk_sec; r->nsec = clk_nsec;
	r->prio = LOG_ERR + (kind > 4 ? kind - 4 : kind); r->line = 500 + (uint32_t)kind; r->tags = 3 * (uint32_t)(kind + 1);   /* priority and tags belong to the call site */
	snprintf(r->fn, sizeof r->fn, "func_%d", kind);
	switch (kind) {
	case 0:
		snprintf(r->msg, sizeof r->msg, "r%d short", n);
		qb_log_from_external_source(r->fn, "bb.c", "r%d short", (uint8_t)r->prio, r->line, r->tags, n);
		break;
	case 1:
		/* long and plain integer conversions mixed, with further arguments behind them */
		snprintf(r->msg, sizeof r->msg, "r%d with %s and %5.2f and %lu%% then %zu bytes in %d chunks from %s", n, "a string", 3.25, 99UL, (size_t)123456, 7, "peer");
		qb_log_from_external_source(r->fn, "bb.c", "r%d with %s and %5.2f and %lu%% then %zu bytes in %d chunks from %s", (uint8_t)r->prio, r->line, r->tags, n, "a string", 3.25, 99UL, (size_t)123456, 7, "peer");
		break;
	case 2:
		memset(big, 'B', 400); big[400] = 0;
		snprintf(r->msg, sizeof r->msg, "r%d %s", n, big);
		qb_log_from_external_source(r->fn, "bb.c", "r%d %s", (uint8_t)r->prio, r->line, r->tags, n, big);
		break;
	case 4:
		/* just below the line limit, logged from a function with a long name: the record is as large as a record gets */
		snprintf(r->fn, sizeof r->fn, "a_function_with_a_name_that_is_sixty_characters_long_0123456");
		memset(big, 'N', 480); big[480] = 0;
		snprintf(r->msg, sizeof r->msg, "r%d %s", n, big);
		qb_log_from_external_source(r->fn, "bb.c", "r%d %s", (uint8_t)r->prio, r->line, r->tags, n, big);
		break;
	case 5: case 6: case 7: {
		/* longer than the default line length, inside the configured one (long-lines mode only) */
		static char huge[2000];
		size_t l = kind == 5 ? 1500 : kind == 6 ? 700 : 100;
		memset(huge, 'M', l); huge[l] = 0;
		snprintf(r->msg, sizeof r->msg, "r%d %s", n, huge);
		if (cur_line_len && strlen(r->msg) + 8 >= (size_t)cur_line_len)      /* does not fit the configured line: the notice is stored instead */
			snprintf(r->msg, sizeof r->msg, "Log message too long to be stored in the blackbox.  Maximum is QB_LOG_MAX_LEN");
		qb_log_from_external_source(r->fn, "bb.c", "r%d %s", (uint8_t)r->prio, r->line, r->tags, n, huge);
		break; }
	default:
		/* over-long: the blackbox stores a replacement text */
		memset(big, 'L', 599); big[599] = 0;
		snprintf(r->msg, sizeof r->msg, "Log message too long to be stored in the blackbox.  Maximum is QB_LOG_MAX_LEN");
		qb_log_from_external_source(r->fn, "bb.c", "r%d %s", (uint8_t)r->prio, r->line, r->tags, n, big);
		break;
	}
	nlogged++;
}

static int list_shm(char *out, size_t capacity)
{
	DIR *d = opendir("/dev/shm"); struct dirent *e; size_t l = 0; int n = 0;
	out[0] = 0;
	if (!d) return -1;
	while ((e = readdir(d))) { if (e->d_name[0] == '.') continue; l += snprintf(out + l, capacity - l, "%s;", e->d_name); n++; }
	closedir(d);
	return n;
}

/* parse what print_from_file wrote and compare with the newest records */
static void check_round_trip(const char *why)
{
	char *line = cap, *nl;
	int nprinted = 0, first, i;
	if (vp_tracing) vp_logf("--- captured output ---\n%s---", cap);
	struct { char prio[16], time[40], fn[80]; unsigned line, tags; char msg[700]; } P[64];
	while ((nl = strchr(line, '\n'))) {
		*nl = 0;
		if (!strncmp(line, "Ringbuffer", 10) || line[0] == ' ' || !*line) { line = nl + 1; continue; }
		if (nprinted < 64) {
			char mon[8]; int day, hh, mm, ss, ms, off = 0;
			if (sscanf(line, "%15s %7s %d %d:%d:%d.%d %79[^(](%u):%u: %n", P[nprinted].prio, mon, &day, &hh, &mm, &ss, &ms, P[nprinted].fn, &P[nprinted].line, &P[nprinted].tags, &off) < 10 || !off)
				vp_fail("%s: unparsable output line '%.80s'", why, line);
			snprintf(P[nprinted].time, sizeof P[nprinted].time, "%s %02d %02d:%02d:%02d.%03d", mon, day, hh, mm, ss, ms);
			snprintf(P[nprinted].msg, sizeof P[nprinted].msg, "%s", line + off);
			nprinted++;
		}
		line = nl + 1;
	}
	if (nlogged && nprinted < 1) vp_fail("%s: %d records logged, the dump prints none", why, nlogged);
	if (nprinted > nlogged) vp_fail("%s: dump prints %d records, only %d were logged", why, nprinted, nlogged);
	first = nlogged - nprinted;
	for (i = 0; i < nprinted; i++) {
		struct rec *r = &LOGGED[first + i];
		char tb[40]; struct tm tm; time_t s = r->sec; size_t n;
		localtime_r(&s, &tm);
		n = strftime(tb, sizeof tb, "%b %d %T", &tm);
		snprintf(tb + n, sizeof tb - n, ".%03ld", r->nsec / 1000000);
		if (strcmp(P[i].prio, prio_names[r->prio]) || strcmp(P[i].fn, r->fn) || P[i].line != r->line || P[i].tags != r->tags)
			vp_fail("%s: printed record %d of %d is '%s %s(%u):%u', logged record #%d was '%s %s(%u):%u' (the dump must be an unbroken run ending with the last record)",
				why, i, nprinted, P[i].prio, P[i].fn, P[i].line, P[i].tags, first + i, prio_names[r->prio], r->fn, r->line, r->tags);
		if (strcmp(P[i].time, tb)) vp_fail("%s: record #%d printed with time '%s', logged at '%s'", why, first + i, P[i].time, tb);
		if (strcmp(P[i].msg, r->msg)) vp_fail("%s: record #%d printed as '%.60s', logged as '%.60s'", why, first + i, P[i].msg, r->msg);
	}
	vp_outcome_u64((uint64_t)nprinted);
}

/* long-lines mode: the printer is built for the default line length, so the dump is loaded and walked by hand
   (the same calls and the same record layout the printer uses) */
static void check_ring_dump(const char *why)
{
	static char chunk[8192 + 64], text[4096];
	unsigned char hdr[20];
	qb_ringbuffer_t *rb;
	int fd = open(dumpf, O_RDONLY), n = 0, first, i;
	ssize_t r;
	static struct { int prio; uint32_t line, tags; char fn[80]; char msg[2100]; } Q[64];
	if (fd < 0 || read(fd, hdr, sizeof hdr) != (ssize_t)sizeof hdr) vp_fail("%s: the dump file cannot be read", why);
	rb = qb_rb_create_from_file(fd, 0);
	close(fd);
	if (!rb) vp_fail("%s: the dump cannot be loaded as a ring buffer", why);
	while ((r = qb_rb_chunk_read(rb, chunk, 8192, 0)) > 0) {
		char *p = chunk; uint32_t fn_size, msg_len; uint8_t prio;
		if (n >= 64) break;
		if (r < 4 * 4 + 1 + 16) vp_fail("%s: record of %zd bytes in the dump", why, r);
		memset(chunk + r, 0, 64);
		memcpy(&Q[n].line, p, 4); p += 4; memcpy(&Q[n].tags, p, 4); p += 4; memcpy(&prio, p, 1); p += 1; Q[n].prio = prio;
		memcpy(&fn_size, p, 4); p += 4;
		if (fn_size == 0 || fn_size > 79 || (ssize_t)fn_size + 33 > r) vp_fail("%s: record %d in the dump has function-name size %u", why, n, fn_size);
		memcpy(Q[n].fn, p, fn_size); Q[n].fn[fn_size] = 0; p += fn_size;
		p += sizeof(struct timespec);
		memcpy(&msg_len, p, 4); p += 4;
		if (msg_len == 0 || (ssize_t)msg_len > r) vp_fail("%s: record %d in the dump has message size %u (record %zd bytes)", why, n, msg_len, r);
		qb_vsnprintf_deserialize(text, sizeof text, p);
		snprintf(Q[n].msg, sizeof Q[n].msg, "%s", text);
		n++;
	}
	qb_rb_close(rb);
	if (nlogged && n < 1) vp_fail("%s: %d records logged, the dump holds none that can be read (last read: %zd)", why, nlogged, r);
	if (n > nlogged) vp_fail("%s: the dump holds %d records, only %d were logged", why, n, nlogged);
	first = nlogged - n;
	for (i = 0; i < n; i++) {
		struct rec *e = &LOGGED[first + i];
		if (Q[i].prio != e->prio || strcmp(Q[i].fn, e->fn) || Q[i].line != e->line || Q[i].tags != e->tags)
			vp_fail("%s: record %d of %d in the dump is '%d %s(%u):%u', logged record #%d was '%d %s(%u):%u' (the dump must be an unbroken run ending with the last record)",
				why, i, n, Q[i].prio, Q[i].fn, Q[i].line, Q[i].tags, first + i, e->prio, e->fn, e->line, e->tags);
		if (strcmp(Q[i].msg, e->msg)) vp_fail("%s: record #%d reads '%.40s...' (%zu chars), logged '%.40s...' (%zu chars)", why, first + i, Q[i].msg, strlen(Q[i].msg), e->msg, strlen(e->msg));
	}
	vp_outcome_u64((uint64_t)n + 1000);
}

static unsigned char *base[5]; static size_t base_len[5]; static int nbase;
static size_t msg_off[5]; static uint32_t msg_len[5];   /* oldest record of each base dump: where its encoded message starts, how long it is */
static size_t rec_off[5][16]; static int nrec_off[5];      /* offsets of record fields in each base dump */

static unsigned char *slurp(const char *f, size_t *len)
{
	FILE *fp = fopen(f, "rb"); unsigned char *b; long n;
	if (!fp) vp_broken("cannot read %s", f);
	fseek(fp, 0, SEEK_END); n = ftell(fp); fseek(fp, 0, SEEK_SET);
	b = malloc((size_t)n + 1);
	if (fread(b, 1, (size_t)n, fp) != (size_t)n) vp_broken("short read");
	fclose(fp); *len = (size_t)n;
	return b;
}
static void spit(const char *f, const unsigned char *b, size_t n)
{
	int fd = open(f, O_CREAT | O_TRUNC | O_WRONLY, 0600);
	if (fd < 0 || write(fd, b, n) != (ssize_t)n) vp_broken("cannot write %s", f);
	close(fd);
}

static void setup(void)
{
	int cfg;
	snprintf(dir, sizeof dir, "/dev/shm/vpdump-%d", vp_worker_id());
	mkdir(dir, 0700);
	snprintf(dumpf, sizeof dumpf, "%s/dump.fdata", dir);
	snprintf(dmgf, sizeof dmgf, "%s/damaged.fdata", dir);
	if (mode != 0) return;
	capturing = 1;
	/* base dumps: 1 record, 3 records, many records (wrapped) */
	for (cfg = 0; cfg < 4; cfg++) {
		int i, n = cfg == 0 ? 1 : cfg == 1 ? 3 : cfg == 2 ? 14 : 1;
		bb_start(2048);
		for (i = 0; i < n; i++) bb_log(cfg == 3 ? 2 : cfg == 2 ? i % 3 : i % 2);      /* the fourth dump holds one 400-character record */
		unlink(dumpf);
		if (qb_log_blackbox_write_to_file(dumpf) < 0) vp_broken("write_to_file failed");
		base[nbase] = slurp(dumpf, &base_len[nbase]);
		/* locate the oldest record: file = 20 byte marker block, 20 byte ring header, data */
		{
			uint32_t ws, wp, rp; size_t o;
			memcpy(&ws, base[nbase] + 20, 4); memcpy(&wp, base[nbase] + 24, 4); memcpy(&rp, base[nbase] + 28, 4);
			o = 40 + (size_t)rp * 4;
			nrec_off[nbase] = 0;
			if (o + 64 < base_len[nbase]) {
				uint32_t fnlen;
				size_t k = 0;
				rec_off[nbase][k++] = o;            /* chunk size */
				rec_off[nbase][k++] = o + 4;        /* chunk magic */
				rec_off[nbase][k++] = o + 8;        /* line */
				rec_off[nbase][k++] = o + 12;       /* tags */
				rec_off[nbase][k++] = o + 16;       /* priority (byte) + first bytes of fn length */
				rec_off[nbase][k++] = o + 17;       /* function length */
				memcpy(&fnlen, base[nbase] + o + 17, 4);
				if (fnlen < 64) {
					rec_off[nbase][k++] = o + 21 + fnlen;        /* timestamp */
					rec_off[nbase][k++] = o + 21 + fnlen + 8;
					rec_off[nbase][k++] = o + 21 + fnlen + 16;   /* message length */
					rec_off[nbase][k++] = o + 21 + fnlen + 20;   /* message: format text */
					msg_off[nbase] = o + 21 + fnlen + 20; memcpy(&msg_len[nbase], base[nbase] + o + 21 + fnlen + 16, 4);
				}
				nrec_off[nbase] = (int)k;
			}
			(void)ws; (void)wp;
		}
		nbase++;
		qb_log_fini();
	}
	capturing = 0;
}

#include <sys/mount.h>
#include <sys/statvfs.h>
static void shm_resize(int nearly_full)
{
	char opt[64];
	struct statvfs v;
	if (statvfs("/dev/shm", &v) != 0) vp_broken("statvfs(/dev/shm)");
	snprintf(opt, sizeof opt, "size=%llu,mode=1777", nearly_full ? (unsigned long long)(v.f_blocks - v.f_bfree) * v.f_bsize + 12288ULL : 1ULL << 30);      /* the header file takes three pages */
	if (mount("tmpfs", "/dev/shm", "tmpfs", MS_REMOUNT, opt) != 0) vp_broken("cannot resize the private /dev/shm (%s): %s", opt, strerror(errno));
}

static const char *small_files[] = { "", "x", "\0\0\0\0", "\xff\xff\xff\xff\xff\xff\xff\xff\xff\xff\xff\xff\xff\xff\xff\xff\xff\xff\xff\xff\xff\xff\xff\xff" };

static void run_damage(void)
{
	int b = vp_choose(nbase, "base dump"), kind = vp_choose(byteflip ? 8 : 6, "damage kind"), rc, shm_full = 0;
	size_t len = base_len[b];
	unsigned char *f = malloc(len + 64);
	char before[4096], after[4096];
	static const char *kn[] = { "truncate", "header word", "two header words", "record field", "arbitrary small file", "crafted format", "byte flip", "intact dump, shared memory nearly full" };
	memcpy(f, base[b], len);
	if (kind == 0) {
		/* every truncation length: all below 256, then every 16th byte plus the last 64 */
		size_t steps = 256 + (len - 256) / 16 + 64, c = (size_t)vp_choose((int)steps, "length");
		len = c < 256 ? c : c < 256 + (len - 256) / 16 ? 256 + (c - 256) * 16 : len - (steps - c);
		if (len < 64) {
			/* a short file that still announces a plausible (tiny) ring: gets past the size check */
			static const uint32_t wsv[] = { 0xffffffffu, 0, 1, 5 };
			int w = vp_choose(4, "announced word_size");
			if (w) { memcpy(f + 20, &wsv[w], 4); vp_log("word_size := %u", wsv[w]); }
		}
	} else if (kind == 1 || kind == 2) {
		int w = vp_choose(10, "word"), v;
		int32_t vals[15]; uint32_t truev, ws;
		memcpy(&ws, f + 20, 4);
		memcpy(&truev, f + 4 * w, 4);
		vals[0] = 0; vals[1] = 1; vals[2] = -1; vals[3] = 0x7fffffff; vals[4] = (int32_t)0x80000000; vals[5] = (int32_t)truev + 1; vals[6] = (int32_t)truev - 1;
		vals[7] = (int32_t)ws; vals[8] = (int32_t)len; vals[9] = (int32_t)(len / 4); vals[10] = (int32_t)ws + 1; vals[11] = 13;
		/* the same ring position one, two and three laps further: the magic word is looked up modulo the ring size,
		   so only such a value gets a ring pointer past the "is there a chunk" test */
		vals[12] = (int32_t)(truev + ws); vals[13] = (int32_t)(truev + 2 * ws); vals[14] = (int32_t)(truev + 3 * ws);
		v = vp_choose(15, "value");
		memcpy(f + 4 * w, &vals[v], 4);
		if (kind == 2) {
			int w2 = 5 + vp_choose(5, "second word"), v2 = vp_choose(15, "second value");
			memcpy(f + 4 * w2, &vals[v2], 4);
			/* keep the header hash consistent in half of the cases so that the values get past the hash check */
			if (vp_choose(2, "fix hash")) { uint32_t a, bb, c2, d, h; memcpy(&a, f + 20, 4); memcpy(&bb, f + 24, 4); memcpy(&c2, f + 28, 4); memcpy(&d, f + 32, 4); h = a + bb + c2 + d; memcpy(f + 36, &h, 4); }
		} else if (w >= 5 && w <= 8 && vp_choose(2, "fix hash")) {
			uint32_t a, bb, c2, d, h; memcpy(&a, f + 20, 4); memcpy(&bb, f + 24, 4); memcpy(&c2, f + 28, 4); memcpy(&d, f + 32, 4); h = a + bb + c2 + d; memcpy(f + 36, &h, 4);
		}
		vp_log("word %d := value %d", w, v);
	} else if (kind == 3) {
		int k, v; int32_t vals[10]; uint32_t truev;
		if (!nrec_off[b]) { free(f); vp_pruned(); return; }
		k = vp_choose(nrec_off[b], "field");
		memcpy(&truev, f + rec_off[b][k], 4);
		vals[0] = 0; vals[1] = 1; vals[2] = -1; vals[3] = 0x7fffffff; vals[4] = (int32_t)0x80000000; vals[5] = (int32_t)truev + 1; vals[6] = (int32_t)truev - 1;
		vals[7] = 512; vals[8] = 513; vals[9] = 0x25252525;     /* "%%%%" */
		v = vp_choose(10, "value");
		memcpy(f + rec_off[b][k], &vals[v], 4);
		vp_log("record field %d (offset %zu) := value %d", k, rec_off[b][k], v);
	} else if (kind == 4) {
		int c = vp_choose(4 + 3, "file");
		if (c < 4) { len = c == 2 ? 4 : c == 3 ? 24 : strlen(small_files[c]); memcpy(f, small_files[c], len); }
		else if (c == 4) len = 20;                    /* marker block only */
		else if (c == 5) len = 40;                    /* both headers, no data */
		else { memset(f, 0xff, len); }
	} else if (kind == 5) {
		/* a record whose stored format is not one a log call would have produced: repeated length modifiers, flags,
		   stars, huge widths, conversions that expand far beyond the line length, more conversions than arguments */
		char fm[400]; int c = vp_choose(14, "crafted format"), rep = 40, i, l = 0;
		static const char mods[] = "lzjthL-0+ #";
		if (msg_len[b] < 64 || msg_off[b] + msg_len[b] > len) { free(f); vp_pruned(); return; }
		if (c < 11) { fm[l++] = 'x'; fm[l++] = '%'; for (i = 0; i < rep; i++) fm[l++] = mods[c]; fm[l++] = 'd'; fm[l] = 0; }
		else if (c == 11) snprintf(fm, sizeof fm, "%%-500d%%-500d");
		else if (c == 12) { for (i = 0; i < 20; i++) { fm[l++] = '%'; fm[l++] = '*'; fm[l++] = '.'; fm[l++] = '*'; fm[l++] = 's'; } fm[l] = 0; }
		else { fm[l++] = '%'; for (i = 0; i < 30; i++) fm[l++] = '9'; fm[l++] = '.'; for (i = 0; i < 30; i++) fm[l++] = '9'; fm[l++] = 'f'; fm[l] = 0; }
		l = (int)strlen(fm);
		if ((uint32_t)l + 1 > msg_len[b]) l = (int)msg_len[b] - 1;
		memset(f + msg_off[b], 0, msg_len[b]);
		memcpy(f + msg_off[b], fm, (size_t)l);
		vp_log("format of the oldest record := '%.60s%s'", fm, l > 60 ? "..." : "");
	} else if (kind == 7) {
		/* the reader cannot create the ring it needs: room for the header file, none for the data file.  It has to
		   give up with a result code and take back what it had created (private tmpfs of this worker, resized) */
		shm_full = 1;
	} else {
		size_t pos = (size_t)vp_choose((int)len, "byte");
		/* headers and the first records byte by byte, the rest is covered by the field damage */
		f[pos] ^= 0xff;
	}
	spit(dmgf, f, len);
	free(f);
	vp_log("base dump %d (%zu bytes), damage: %s -> %zu bytes", b, base_len[b], kn[kind], len);
	/* leftovers of an earlier execution that crashed inside the reader must not influence this one */
	unlink("/dev/shm/qb-create_from_file-header"); unlink("/dev/shm/qb-create_from_file-data");
	list_shm(before, sizeof before);
	capn = 0; cap[0] = 0;
	if (shm_full) shm_resize(1);
	rc = qb_log_blackbox_print_from_file(dmgf);
	if (shm_full) { shm_resize(0); if (capn > 0) vp_broken("the dump was printed although /dev/shm should have had no room for its ring"); }
	vp_log("print_from_file = %d", rc);
	list_shm(after, sizeof after);
	if (strcmp(before, after)) vp_fail("printing a damaged dump left files in /dev/shm: before '%s' after '%s'", before, after);
	vp_outcome_u64((uint64_t)(rc < 0 ? 1 : 0) + 2 * (uint64_t)(capn > 0));
	vp_state(((uint64_t)b << 40) ^ ((uint64_t)kind << 32) ^ vp_hash(&len, sizeof len, (uint64_t)vp_depth()));
}

static void run_roundtrip(void)
{
	static const int sizes[] = { 1024, 2048, 4096 };
	int size = sizes[vp_choose(3, "blackbox size")], step, rc;
	char before[4096], after[4096];
	bb_stderr_too = vp_choose(2, "stderr target enabled as well");
	bb_start(size);
	vp_log("blackbox of %d bytes", size);
	{
		/* start near the wrap point of the (page rounded) ring as well */
		static const int pre[] = { 0, 7, 9, 12 };
		int i, n = pre[vp_choose(4, "records logged before")];
		for (i = 0; i < n; i++) bb_log(2);
		if (n) vp_log("%d records of 400 characters logged first", n);
	}
	for (step = 0; step < depth; step++) {
		int kind = vp_choose(5, "record kind");
		bb_log(kind == 4 ? 3 : kind == 3 ? 4 : kind);
		vp_log("log record #%d kind %d: '%.40s'", nlogged - 1, kind, LOGGED[nlogged - 1].msg);
		unlink(dumpf);
		if (qb_log_blackbox_write_to_file(dumpf) < 0) vp_fail("qb_log_blackbox_write_to_file failed after record %d", nlogged);
		list_shm(before, sizeof before);
		capn = 0; cap[0] = 0;
		rc = qb_log_blackbox_print_from_file(dumpf);
		(void)rc;    /* the result code is not specified (the reader ends on the first failing read) */
		list_shm(after, sizeof after);
		if (strcmp(before, after)) vp_fail("printing a valid dump left files in /dev/shm: '%s' -> '%s'", before, after);
		check_round_trip("dump after a record");
	}
	qb_log_fini();
	bb_stderr_too = 0;
}

static void run_longlines(void)
{
	static const int sizes[] = { 4096, 8192 };
	static const int kinds[] = { 0, 5, 6, 7 };
	int size = sizes[vp_choose(2, "blackbox size")], step;
	bb_line_len = cur_line_len = vp_choose(2, "line length") ? 32 : 2048;      /* longer and much shorter than the default */
	bb_start(size);
	bb_line_len = 0;
	vp_log("blackbox of %d bytes, line length %d", size, cur_line_len);
	{ int i, n = vp_choose(2, "records logged before") * (cur_line_len == 32 ? 40 : 6); for (i = 0; i < n; i++) bb_log(6); }      /* enough to fill the ring */
	for (step = 0; step < depth; step++) {
		int kind = kinds[vp_choose(4, "record kind")];
		bb_log(kind);
		vp_log("log record #%d kind %d (%zu chars)", nlogged - 1, kind, strlen(LOGGED[nlogged - 1].msg));
		unlink(dumpf);
		if (qb_log_blackbox_write_to_file(dumpf) < 0) vp_fail("qb_log_blackbox_write_to_file failed after record %d", nlogged);
		check_ring_dump("dump after a record");
	}
	qb_log_fini();
}

static void run(void) { capturing = 1; if (mode == 0) run_damage(); else if (mode == 2) run_longlines(); else run_roundtrip(); capturing = 0; }

static void init(void)
{
	mode = (int)vp_param("round_trip", 0, 0);
	depth = (int)vp_param("records", 5, 7);
	byteflip = (int)vp_param("byte_flips", 0, 1);
}

int main(int argc, char **argv)
{
	static struct vp_harness h = {
#if defined(VP_C14_TWIN)
		.property = "C14", .name = "c14_bb_logger", .level = "exploration",
#elif defined(VP_C11_TWIN)
		.property = "C11", .name = "c11_bb_newest", .level = "model_checking",
#else
		.property = "C15", .name = "c15_bb_dump", .level = "exploration",
#endif
		.run = run, .init = init, .setup = setup, .batch = 100, .private_shm = 1, .timeout_s = 30,
		.rule = "round_trip=2: the blackbox configured for 2048-character lines, every sequence of short / 700 / 1500-character records, the dump loaded with qb_rb_create_from_file and walked record by record after every log call (the printer only handles the default line length); round_trip=1: every sequence of <= records log calls (short, mixed conversions, 400-character, 480-character from a function with a 60-character name, over-long) into blackboxes of "
			"1024/2048/4096 bytes; after EVERY record the blackbox is written to a file, printed with qb_log_blackbox_print_from_file and "
			"the captured output parsed and compared field by field (priority, function, line, tags, timestamp, text) with the newest "
			"records, which must form an unbroken run ending with the last one.  round_trip=0: three valid dumps (1, 3, 14 wrapped records) "
			"damaged by every truncation length (<256 bytewise, then every 16th, last 64), every header word x 15 boundary values (among them each ring pointer 1, 2 and 3 laps further) (with and "
			"without a repaired hash), pairs of header words, every field of the oldest record x 10 values, structurally arbitrary small "
			"files, optionally single byte flips; the print call must return, ASan-clean, leaving /dev/shm as it was",
		.assumptions = { "one forked batch per 100 files, a crash is attributed to the file being printed", "wall clock replaced by a counter", NULL },
	};
	return vp_main(argc, argv, &h);
}
