/* C16: threaded logging.  lib/log_thread.c is a TSan-ABI unit; libqb's own logging thread runs as a
 * coroutine (wrapped pthread_create/join/exit, locks, semaphores); the producer coroutine runs a
 * history of init / open / set-threaded / thread-start / control / log / close / fini / re-init. */
#include "vp_sched.h"
#include <qb/qblog.h>
#include <qb/qbdefs.h>
#include <errno.h>
#include <stdio.h>
#include <stdarg.h>
#include <string.h>
#include <stdlib.h>
#include <syslog.h>

enum { OP_INIT, OP_OPEN, OP_THREADED, OP_START, OP_ENABLE, OP_DISABLE, OP_LOG, OP_LINELEN, OP_CLOSE, OP_FINI, OP_BADLEN, OP_REOPEN_BAD, NOPS };
static const char *opn[] = { "init", "custom_open", "ctl(THREADED,1)", "thread_start", "ctl(ENABLED,1)", "ctl(ENABLED,0)", "log", "ctl(MAX_LINE_LEN)", "custom_close", "fini", "ctl(MAX_LINE_LEN, out of range)", "file_reopen(path that cannot be opened)" };
static int depth, burst, burst_n;

/* model */
static int inited, open_t = -1, threaded, started, enabled, cycles;
#define MAXMSG 400
static struct { int required, delivered, delivered2, logged_threaded; } MSG[MAXMSG];
static int two_targets, open_t2 = -1, last_delivered2 = -1;     /* a second target that is opened, switched and closed together with the first */
static int nmsg, last_delivered = -1, lost_reported, in_fini, fini_done_count;
static int logger_busy, badlen_done, file_target, reopen_done;      /* file_target: the target is a log file (/dev/null): what it receives cannot be observed, safety and termination can */

static void my_logger(int32_t t, struct qb_log_callsite *cs, struct timespec *ts, const char *msg)
{
	int seq = -1;
	(void)cs; (void)ts;
	if (two_targets && t == open_t2 && open_t2 >= 0) {
		if (sscanf(msg, "m%d", &seq) != 1 || seq < 0 || seq >= nmsg) vp_fail("logger got a message that was never logged: '%.40s'", msg);
		vp_log("    target2 <- m%d (%s)", seq, vp_co_name(vp_co_self()));
		if (MSG[seq].delivered2++) vp_fail("message m%d written to the second target twice", seq);
		if (seq <= last_delivered2) vp_fail("message m%d written to the second target after m%d: out of order", seq, last_delivered2);
		last_delivered2 = seq;
		return;
	}
	if (t != open_t && open_t >= 0) vp_fail("logger called for target %d, the open one is %d", t, open_t);
	if (sscanf(msg, "m%d", &seq) != 1 || seq < 0 || seq >= nmsg) vp_fail("logger got a message that was never logged: '%.40s'", msg);
	if (burst && seq < burst_n && strlen(msg) < 3000) vp_fail("burst message arrived truncated (%zu bytes)", strlen(msg));
	vp_log("    target <- m%d (%s)", seq, vp_co_name(vp_co_self()));
	/* writing takes time: the producer may run control operations meanwhile; the library has to keep them apart */
	logger_busy++;
	if (!burst && vp_co_self() > 0) vp_yield_free("inside the target's logger (a write takes time)");
	logger_busy--;
	if (MSG[seq].delivered++) vp_fail("message m%d written to the target twice", seq);
	if (seq <= last_delivered) vp_fail("message m%d written after m%d: out of order", seq, last_delivered);
	last_delivered = seq;
}
static void my_close(int32_t t)
{
	(void)t;
	if (logger_busy) vp_fail("the target's close callback ran while the logging thread was inside the target's logger");
}

int __wrap_printf(const char *fmt, ...);
int __wrap_printf(const char *fmt, ...)
{
	va_list ap;
	int r = 0;
	va_start(ap, fmt);
	if (!strncmp(fmt, "%d messages lost", 16)) { int n = va_arg(ap, int); lost_reported += n; vp_log("    report: %d messages lost", n); }
	else r = vfprintf(stderr, fmt, ap);
	va_end(ap);
	return r;
}

static void all_optional(void) { int i; for (i = 0; i < nmsg; i++) if (!MSG[i].delivered || (two_targets && !MSG[i].delivered2)) MSG[i].required = 0; }

static void do_log(size_t len)
{
	static char big[5000];
	int seq = nmsg, before;
	if (nmsg >= MAXMSG) vp_broken("too many messages");
	MSG[seq].required = !file_target; MSG[seq].delivered = 0; MSG[seq].delivered2 = 0; MSG[seq].logged_threaded = threaded;
	nmsg++;
	before = MSG[seq].delivered;
	if (len) {
		memset(big, 'x', len); big[len] = 0;
		qb_log_from_external_source("fn", "file.c", "m%d %s", LOG_INFO, 100 + (uint32_t)cycles, 0, seq, big);
	} else
		qb_log_from_external_source("fn", "file.c", "m%d", LOG_INFO, 100 + (uint32_t)cycles, 0, seq);
	(void)before;
	if (!threaded && !file_target && MSG[seq].delivered != 1) vp_fail("message m%d to a non-threaded, enabled target was not written during the log call", seq);
	if (!threaded && two_targets && MSG[seq].delivered2 != 1) vp_fail("message m%d to the second (non-threaded, enabled) target was not written during the log call", seq);
}

static void do_fini(void)
{
	int i, missing = 0;
	in_fini = 1;
	qb_log_fini();
	in_fini = 0;
	vp_log("P: fini returned");
	for (i = 0; i < nmsg; i++) {
		if (MSG[i].required && (!MSG[i].delivered || (two_targets && !MSG[i].delivered2))) missing++;
	}
	if (missing > lost_reported)
		vp_fail("qb_log_fini returned but %d queued message(s) were neither written nor reported as lost (reported lost: %d)", missing, lost_reported);
	if (!burst && lost_reported) vp_fail("%d messages reported lost although the backlog limit was never reached", lost_reported);
	/* anything undelivered now must never arrive later */
	for (i = 0; i < nmsg; i++) { if (!MSG[i].delivered) MSG[i].delivered = -1000; if (!MSG[i].delivered2) MSG[i].delivered2 = -1000; }
	inited = 0; open_t = -1; open_t2 = -1; threaded = 0; started = 0; enabled = 0; cycles++;
	fini_done_count = nmsg;
}

static int others_idle(void *p) { (void)p; return vp_co_others_idle(); }
static void producer(void *arg)
{
	int step, last_op = -1;
	(void)arg;
	if (burst) {
		int i, r;
		qb_log_init("vp", LOG_USER, LOG_EMERG);
		qb_log_ctl(QB_LOG_SYSLOG, QB_LOG_CONF_ENABLED, QB_FALSE);
		open_t = qb_log_custom_open(my_logger, my_close, NULL, NULL);
		qb_log_filter_ctl(open_t, QB_LOG_FILTER_ADD, QB_LOG_FILTER_FILE, "*", LOG_TRACE);
		r = qb_log_ctl(open_t, QB_LOG_CONF_MAX_LINE_LEN, 4096);
		if (r) vp_fail("MAX_LINE_LEN 4096 refused: %d", r);
		qb_log_ctl(open_t, QB_LOG_CONF_THREADED, QB_TRUE); threaded = 1;
		r = qb_log_thread_start();
		if (r) vp_fail("thread_start failed: %d", r);
		qb_log_ctl(open_t, QB_LOG_CONF_ENABLED, QB_TRUE); enabled = 1; inited = 1; started = 1;
		for (i = 0; i < burst_n; i++) do_log(4000);
		/* once the backlog has been worked off, logging works as before: later messages are written (or reported) too */
		vp_block(others_idle, NULL, "the logging thread to work off the backlog");
		for (i = 0; i < 3; i++) do_log(0);
		do_fini();
		if (lost_reported == 0 && vp_cost_spent() == 0) vp_log("note: no message was lost in this schedule");
		return;
	}
	for (step = 0; step < depth; step++) {
		int legal[NOPS], n = 0, op, r;
		if (!inited) legal[n++] = OP_INIT;
		else {
			if (open_t < 0) legal[n++] = OP_OPEN;
			if (open_t >= 0 && !threaded) legal[n++] = OP_THREADED;
			if (!started) legal[n++] = OP_START;
			if (open_t >= 0 && !enabled) legal[n++] = OP_ENABLE;
			if (open_t >= 0 && enabled) legal[n++] = OP_DISABLE;
			if (open_t >= 0 && enabled && (!threaded || started)) legal[n++] = OP_LOG;
			if (open_t >= 0 && last_op != OP_LINELEN) legal[n++] = OP_LINELEN;
			if (open_t >= 0) legal[n++] = OP_CLOSE;
			legal[n++] = OP_FINI;
			/* later additions go last, so that recorded answer sequences keep their meaning */
			if (open_t >= 0 && !badlen_done) legal[n++] = OP_BADLEN;
			if (open_t >= 0 && file_target && !reopen_done) legal[n++] = OP_REOPEN_BAD;
		}
		op = legal[vp_choose(n, "history op")];
		last_op = op;
		vp_local_reset(50 + step);
		vp_log("P: %s", opn[op]);
		switch (op) {
		case OP_INIT:
			qb_log_init("vp", LOG_USER, LOG_EMERG);
			qb_log_ctl(QB_LOG_SYSLOG, QB_LOG_CONF_ENABLED, QB_FALSE);
			inited = 1;
			break;
		case OP_OPEN:
			open_t = file_target ? qb_log_file_open("/dev/null") : qb_log_custom_open(my_logger, my_close, NULL, NULL);
			if (open_t < 0) vp_fail("%s failed: %d", file_target ? "file_open" : "custom_open", open_t);
			r = qb_log_filter_ctl(open_t, QB_LOG_FILTER_ADD, QB_LOG_FILTER_FILE, "*", LOG_TRACE);
			if (r) vp_fail("filter add failed: %d", r);
			enabled = 0; threaded = 0;
			if (two_targets) {
				open_t2 = qb_log_custom_open(my_logger, NULL, NULL, NULL);
				if (open_t2 < 0) vp_fail("second custom_open failed: %d", open_t2);
				qb_log_filter_ctl(open_t2, QB_LOG_FILTER_ADD, QB_LOG_FILTER_FILE, "*", LOG_TRACE);
			}
			break;
		case OP_THREADED:
			r = qb_log_ctl(open_t, QB_LOG_CONF_THREADED, QB_TRUE);
			if (r) vp_fail("ctl(THREADED) failed: %d", r);
			if (two_targets && qb_log_ctl(open_t2, QB_LOG_CONF_THREADED, QB_TRUE)) vp_fail("ctl(THREADED) on the second target failed");
			threaded = 1;
			break;
		case OP_START:
			r = qb_log_thread_start();
			if (r) vp_fail("thread_start failed: %d", r);
			started = 1;
			break;
		case OP_ENABLE:
			r = qb_log_ctl(open_t, QB_LOG_CONF_ENABLED, QB_TRUE);
			if (r) vp_fail("ctl(ENABLED,1) failed: %d", r);
			if (two_targets && qb_log_ctl(open_t2, QB_LOG_CONF_ENABLED, QB_TRUE)) vp_fail("ctl(ENABLED,1) on the second target failed");
			enabled = 1;
			break;
		case OP_DISABLE:
			all_optional();
			r = qb_log_ctl(open_t, QB_LOG_CONF_ENABLED, QB_FALSE);
			if (r) vp_fail("ctl(ENABLED,0) failed: %d", r);
			if (two_targets && qb_log_ctl(open_t2, QB_LOG_CONF_ENABLED, QB_FALSE)) vp_fail("ctl(ENABLED,0) on the second target failed");
			enabled = 0;
			break;
		case OP_LOG:
			do_log(0);
			break;
		case OP_LINELEN:
			r = qb_log_ctl(open_t, QB_LOG_CONF_MAX_LINE_LEN, 256);
			if (r) vp_fail("ctl(MAX_LINE_LEN) failed: %d", r);
			break;
		case OP_REOPEN_BAD:
			/* a reopen that fails leaves the target as it was - and the logging thread running */
			reopen_done = 1;
			r = qb_log_file_reopen(open_t, "/nonexistent-directory/vp.log");
			if (r >= 0) vp_fail("file_reopen of a path that cannot be opened returned %d", r);
			break;
		case OP_BADLEN:
			/* a value outside the accepted range is refused and changes nothing - in particular the logging thread goes on */
			badlen_done = 1;
			r = qb_log_ctl(open_t, QB_LOG_CONF_MAX_LINE_LEN, 5000);
			if (r != -EINVAL) vp_fail("ctl(MAX_LINE_LEN, 5000) returned %d, not -EINVAL", r);
			break;
		case OP_CLOSE:
			all_optional();
			qb_log_custom_close(open_t);
			if (two_targets && open_t2 >= 0) { qb_log_custom_close(open_t2); open_t2 = -1; }
			open_t = -1; enabled = 0; threaded = 0;
			break;
		case OP_FINI:
			do_fini();
			break;
		}
	}
	if (inited) { vp_log("P: fini (end of history)"); do_fini(); }
}

static int only_sync_points(const volatile void *a, int size, int w) { (void)a; (void)size; (void)w; return 0; }

static void run(void)
{
	int i;
	inited = 0; open_t = -1; threaded = started = enabled = cycles = 0; nmsg = 0; last_delivered = -1; lost_reported = 0; logger_busy = 0; badlen_done = 0; reopen_done = 0; open_t2 = -1; last_delivered2 = -1;
	vp_sched_reset();
	vp_heap_reset();
	vp_stack_size = 512 * 1024;
	vp_access_filter = burst ? only_sync_points : NULL;
	vp_co_spawn(producer, NULL, "producer");
	if (vp_co_run()) { vp_pruned(); return; }
	for (i = 0; i < nmsg; i++) vp_outcome_u64((uint64_t)(MSG[i].delivered > 0) + 2 * (uint64_t)MSG[i].required);
	vp_outcome_u64((uint64_t)lost_reported);
	if (lost_reported) vp_count(1, 1);
	vp_count(2, (uint64_t)nmsg);
}

static void init(void)
{
	depth = (int)vp_param("depth", 6, 8);
	burst = (int)vp_param("burst", 0, 0);
	burst_n = (int)vp_param("burst_messages", 130, 130);
	two_targets = (int)vp_param("two_targets", 0, 0);
	file_target = (int)vp_param("file_target", 0, 0);
	vp_count_name(1, "executions_with_messages_reported_lost");
	vp_count_name(2, "messages_logged_total");
}

int main(int argc, char **argv)
{
	static struct vp_harness h = {
		.property = "C16", .name = "c16_log_thread", .level = "model_checking",
		.run = run, .init = init, .batch = 1, .timeout_s = 60,
		.rule = "producer histories of <= depth legal operations over init, custom_open(+filter), ctl(THREADED), thread_start, enable/disable, "
			"log, ctl(MAX_LINE_LEN), custom_close, fini and re-init, run against libqb's own logging thread as a second coroutine; all "
			"interleavings up to the preemption bound at every memory access of lib/log_thread.c (TSan-ABI), lock, rwlock, semaphore and "
			"thread operation; burst mode: 130 x 4000-byte messages (backlog limit) with scheduling points at synchronisation calls; one "
			"forked process per execution; distinct = delivery/loss outcome vectors",
		.assumptions = { "preemption-bounded (bound in coverage.deviation_bound); sequentially consistent scheduler",
				 "logging on a THREADED target before qb_log_thread_start is outside the alphabet (only control operations are promised safe there)",
				 "messages logged before a later disable/close of the target may or may not be written (not specified); they are never written twice",
				 "a single producer thread", NULL },
	};
	return vp_main(argc, argv, &h);
}
