/* C09: timers never fire early and the loop never sleeps past the next expiry */
#include "loop_common.h"
#include <limits.h>

#define MS 1000000ULL
static const uint64_t DUR[] = { 0, 1, 999999, 1 * MS, 50 * MS, 2147483647ULL * MS, 2147483648ULL * MS, 4294967295ULL * MS,
				4294967296ULL * MS, 1ULL << 63, ~0ULL };
#define NDUR 11
#define MAXT 8
static qb_loop_t *L;
static int part, depth, max_timers, self_del;
static struct tm_s { int live, fired, deleted, prio, seq; uint64_t added, dur, expiry, fired_at; qb_loop_timer_handle h; } TM[MAXT];
static int ntm, fire_seq, jobs_pending, job_ever, stop_in_cb;
static uint64_t stop_at;
static int horizon_iters;

static uint64_t sat_add(uint64_t a, uint64_t b) { return a + b < a ? ~0ULL : a + b; }
static uint64_t slack(void) { return 2 * MS + (job_ever ? 50 * MS : 0); }

static void timer_cb(void *data)
{
	struct tm_s *t = data;
	int i;
	if (t->deleted) vp_fail("timer %d was deleted successfully but its callback ran", (int)(t - TM));
	if (t->fired) vp_fail("timer %d fired twice", (int)(t - TM));
	if (vnow < t->expiry) vp_fail("timer %d (duration %llu ns, added at %llu) fired EARLY at %llu, expiry %llu", (int)(t - TM),
				      (unsigned long long)t->dur, (unsigned long long)t->added, (unsigned long long)vnow, (unsigned long long)t->expiry);
	if (vnow - t->expiry > slack()) vp_fail("timer %d (duration %llu ns) fired %llu ns after its expiry (allowed slack %llu)", (int)(t - TM),
						(unsigned long long)t->dur, (unsigned long long)(vnow - t->expiry), (unsigned long long)slack());
	/* same priority: expiry order */
	for (i = 0; i < ntm; i++)
		if (TM[i].live && !TM[i].fired && !TM[i].deleted && &TM[i] != t && TM[i].prio == t->prio && TM[i].expiry < t->expiry)
			vp_fail("timer %d (expiry %llu) dispatched before timer %d of the same priority (expiry %llu)", (int)(t - TM),
				(unsigned long long)t->expiry, i, (unsigned long long)TM[i].expiry);
	t->fired = 1; t->fired_at = vnow; t->seq = fire_seq++;
	vp_log("  t=%llu: timer %d fires (expiry %llu)", (unsigned long long)vnow, (int)(t - TM), (unsigned long long)t->expiry);
	if (qb_loop_timer_is_running(L, t->h)) vp_fail("is_running reports a timer that has just fired as pending");
	/* the application stops the loop from a HIGH callback: whatever was queued for lower levels in this iteration stays queued,
	   and the next qb_loop_run has to get to it without waiting */
	if (stop_in_cb && t->prio == 2) { vp_log("  (callback calls qb_loop_stop)"); qb_loop_stop(L); }
}
static void job_cb(void *d) { (void)d; jobs_pending--; }

/* a descriptor whose callback removes its own registration while it is being dispatched: the loop's count of work that
   is still queued must come out right afterwards, or it sleeps although an expired timer is waiting on a level that
   was not served in that iteration */
#include <sys/eventfd.h>
static int self_fd = -1;
static int32_t self_del_cb(int32_t fd, int32_t revents, void *data)
{
	int32_t r = qb_loop_poll_del(L, fd);
	(void)revents; (void)data;
	vp_log("  t=%llu: descriptor callback removes its own registration = %d", (unsigned long long)vnow, r);
	jobs_pending--;
	return 0;
}
static void add_self_deleting_fd(void)
{
	uint64_t one = 1;
	if (self_fd < 0) self_fd = eventfd(0, EFD_NONBLOCK);
	if (write(self_fd, &one, sizeof one) < 0) vp_broken("eventfd write");
	if (qb_loop_poll_add(L, QB_LOOP_MED, self_fd, POLLIN, NULL, self_del_cb) != 0) vp_broken("poll_add of an eventfd failed");
	jobs_pending++;
	vp_log("a readable descriptor is watched at MED; its callback will remove it");
}

static int pending_count(void) { int i, n = 0; for (i = 0; i < ntm; i++) n += TM[i].live && !TM[i].fired && !TM[i].deleted; return n; }
static uint64_t earliest(void) { int i; uint64_t e = ~0ULL; for (i = 0; i < ntm; i++) if (TM[i].live && !TM[i].fired && !TM[i].deleted && TM[i].expiry < e) e = TM[i].expiry; return e; }

static void hook(int it, int timeout)
{
	if (pending_count()) {
		uint64_t e = earliest(), remain = e > vnow ? e - vnow : 0;
		if (timeout < 0) vp_fail("loop blocks without a timeout (epoll_wait(%d)) while a timer is pending (expires in %llu ms)", timeout, (unsigned long long)(remain / MS));
		if ((uint64_t)timeout * MS > sat_add(remain, slack()))
			vp_fail("loop sleeps %d ms although the earliest timer expires in %llu ns (slack %llu)", timeout, (unsigned long long)remain, (unsigned long long)slack());
	}
	if (it >= horizon_iters || (!pending_count() && !jobs_pending) || vnow >= stop_at) qb_loop_stop(L);
}

static int add_timer(uint64_t d, int prio)
{
	struct tm_s *t = &TM[ntm];
	int32_t r;
	memset(t, 0, sizeof *t);
	t->added = vnow; t->dur = d; t->expiry = sat_add(vnow, d); t->prio = prio; t->live = 1;
	r = qb_loop_timer_add(L, (enum qb_loop_priority)prio, d, t, timer_cb, &t->h);
	vp_log("add timer %d: duration %llu ns, priority %d = %d", ntm, (unsigned long long)d, prio, r);
	if (r != 0) vp_fail("timer_add(%llu ns) failed: %d", (unsigned long long)d, r);
	if (!qb_loop_timer_is_running(L, t->h)) vp_fail("is_running = 0 for a timer that was just added");
	{
		uint64_t rem = qb_loop_timer_expire_time_remaining(L, t->h);
		if (d > 0 && rem == 0) vp_fail("time remaining = 0 for a pending timer of %llu ns", (unsigned long long)d);
		if (rem > d) vp_fail("time remaining %llu exceeds the duration %llu", (unsigned long long)rem, (unsigned long long)d);
	}
	ntm++;
	return ntm - 1;
}

static void run_loop_until(uint64_t until)
{
	stop_at = until;
	env_hook = hook;
	loop_iterations = 0;
	qb_loop_run(L);
	env_hook = NULL;
}

static void final_checks(void)
{
	int i;
	for (i = 0; i < ntm; i++) {
		if (!TM[i].live || TM[i].deleted) continue;
		if (!TM[i].fired) {
			if (TM[i].expiry != ~0ULL && sat_add(TM[i].expiry, slack()) < vnow)
				vp_fail("timer %d (duration %llu ns) has not fired although its expiry passed %llu ns ago", i, (unsigned long long)TM[i].dur, (unsigned long long)(vnow - TM[i].expiry));
			/* expired and queued for dispatch but not yet called: what the queries say there is not specified */
			if (TM[i].expiry > vnow && !qb_loop_timer_is_running(L, TM[i].h)) vp_fail("is_running = 0 for timer %d which is still pending (expires in %llu ns)", i, (unsigned long long)(TM[i].expiry - vnow));
			if (TM[i].expiry > vnow + MS && qb_loop_timer_expire_time_remaining(L, TM[i].h) == 0) vp_fail("time remaining = 0 for timer %d which expires in %llu ns", i, (unsigned long long)(TM[i].expiry - vnow));
		} else if (qb_loop_timer_expire_time_remaining(L, TM[i].h) != 0) vp_fail("time remaining != 0 for a timer that has fired");
	}
}

static void run(void)
{
	int i;
	vnow = 1000000000ULL; loop_iterations = 0; blocked_forever = 0; rnd_ctr = 0;
	ntm = 0; fire_seq = 0; jobs_pending = 0; job_ever = 0; stop_in_cb = 0;
	L = qb_loop_create();
	if (part == 0) {
		int n = 1 + vp_choose(max_timers, "number of timers"), withjob = vp_choose(2, "job queued too");
		if (self_del && vp_choose(2, "self-removing descriptor")) add_self_deleting_fd();
		for (i = 0; i < n; i++) {
			uint64_t d = DUR[vp_choose(NDUR, "duration")];
			int prio = n > 1 ? vp_choose(2, "priority") * 2 : 1;       /* LOW or HIGH; MED when alone */
			add_timer(d, prio);
		}
		if (withjob) { qb_loop_job_add(L, QB_LOOP_MED, NULL, job_cb); jobs_pending++; job_ever = 1; vp_log("a job is queued as well"); }
		horizon_iters = 12000;
		run_loop_until(~0ULL);
		vp_log("loop returned after %d iterations at t=%llu", loop_iterations, (unsigned long long)vnow);
	} else if (part == 2) {
		/* heap shapes: n timers with pairwise distinct expiries (rank x 4 ms) inserted in EVERY order, then every way of
		   deleting up to two of them (the heap fills the hole with its last entry: every hole/last-entry combination occurs),
		   then the loop runs until the last one has fired: order, lateness and the timeouts are checked all the way */
		int n = 2 + vp_choose(max_timers - 1, "number of timers"), used[MAXT] = { 0 }, nd, d;
		horizon_iters = 400;
		for (i = 0; i < n; i++) {
			int left = 0, k, pick, r;
			for (k = 0; k < n; k++) left += !used[k];
			pick = vp_choose(left, "rank of the next timer added");
			for (r = 0; r < n; r++) if (!used[r] && pick-- == 0) break;
			used[r] = 1;
			add_timer((uint64_t)(r + 1) * 4 * MS, 1);
		}
		nd = vp_choose(3, "timers deleted");
		for (d = 0; d < nd; d++) {
			int live[MAXT], nl = 0, id; int32_t r;
			for (i = 0; i < ntm; i++) if (TM[i].live && !TM[i].deleted) live[nl++] = i;
			id = live[vp_choose(nl, "which timer is deleted")];
			r = qb_loop_timer_del(L, TM[id].h);
			vp_log("del timer %d = %d", id, r);
			if (r != 0) vp_fail("deleting pending timer %d failed: %d", id, r);
			TM[id].deleted = 1;
		}
		run_loop_until(~0ULL);
	} else {
		int step;
		horizon_iters = 400;
		stop_in_cb = vp_choose(2, "HIGH timer callbacks stop the loop");
		if (self_del && vp_choose(2, "self-removing descriptor")) add_self_deleting_fd();
		for (step = 0; step < depth; step++) {
			int live[MAXT], nl = 0, c;
			for (i = 0; i < ntm; i++) if (TM[i].live && !TM[i].fired && !TM[i].deleted) live[nl++] = i;
			c = vp_choose(3 + 3 + 1, "heap op");
			if (c < 3) {
				if (ntm >= MAXT) { vp_pruned(); break; }
				add_timer((uint64_t)(c + 1) * 10 * MS, c == 0 ? 0 : c == 1 ? 1 : 2);      /* 10 ms timers at LOW, 20 ms at MED, 30 ms at HIGH */
			} else if (c < 6) {
				int k = c - 3, id; int32_t r;
				if (k >= nl) { vp_pruned(); break; }
				id = live[k];
				r = qb_loop_timer_del(L, TM[id].h);
				vp_log("del timer %d = %d", id, r);
				if (r != 0) vp_fail("deleting pending timer %d failed: %d", id, r);
				TM[id].deleted = 1;
				if (qb_loop_timer_is_running(L, TM[id].h)) vp_fail("is_running != 0 for a deleted timer");
				/* a stale handle must be refused from now on and must not disturb the others */
				r = qb_loop_timer_del(L, TM[id].h);
				if (r == 0 && nl > 1) { /* second delete: accepted silently is tolerated only if nothing else changes (checked by the run) */ }
			} else {
				vp_log("run the loop for 10 ms");
				run_loop_until(vnow + 10 * MS);
				final_checks();
			}
		}
		{ int guard = 0; do run_loop_until(~0ULL); while (stop_in_cb && pending_count() && ++guard < 12); }
	}
	final_checks();
	{ uint64_t h = 0; for (i = 0; i < ntm; i++) h = h * 131 + (uint64_t)(TM[i].fired ? TM[i].seq + 1 : 0) + 7 * (uint64_t)TM[i].deleted; vp_outcome_u64(h); vp_state(h ^ vnow); }
	qb_loop_destroy(L);
}

static void init(void)
{
	part = (int)vp_param("heap_histories", 0, 0);
	max_timers = (int)vp_param("max_timers", 2, 3);
	depth = (int)vp_param("depth", 6, 7);
	self_del = (int)vp_param("self_removing_descriptor", 1, 1);
}

int main(int argc, char **argv)
{
	static struct vp_harness h = {
		.property = "C09", .name = "c09_loop_timers", .level = "model_checking",
		.run = run, .init = init, .batch = 300, .timeout_s = 60,
		.rule = "heap_histories=0: all tuples of 1..max_timers timers with durations from {0, 1 ns, 999999 ns, 1 ms, 50 ms, (2^31-1) ms, 2^31 ms, "
			"(2^32-1) ms, 2^32 ms, 2^63 ns, 2^64-1 ns} x priorities, with and without a queued job, run on the real loop with a virtual "
			"clock that advances by exactly the timeout the loop passes to epoll_wait (up to 12000 iterations, i.e. centuries of virtual "
			"time); heap_histories=2: 2..max_timers timers with pairwise distinct expiries added in EVERY order, then every deletion of up to two "
			"of them, then run to the end; heap_histories=1: every history of <= depth operations over add(10/20/30 ms), delete(k-th pending), run-for-10-ms; "
			"oracle: never early, at most slack late, expiry order within a priority, every timeout finite/non-negative/not beyond the "
			"earliest expiry + slack, is_running / time_remaining consistent, deleted timers never fire",
		.assumptions = { "slack = 2 ms (ms rounding + one poll tick), plus 50 ms once a job has been queued", "virtual monotonic clock, real epoll", NULL },
	};
	return vp_main(argc, argv, &h);
}
