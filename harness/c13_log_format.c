/* C13: log line formatting stays inside the line limit and follows the documented directives */
#include "vp.h"
#include <qb/qblog.h>
#include <qb/qbrb.h>
#include <fcntl.h>
#include <qb/qbdefs.h>
#include <errno.h>
#include <stdio.h>
#include <string.h>
#include <stdlib.h>
#include <syslog.h>
#include <time.h>
#include <unistd.h>

static int T = -1, nitems_max, thin, e2e, cur_limit, nl_second;
static int FT = -1, devnull = -1, T2 = -1, t2_calls;
static size_t e2e_plain_len = (size_t)-1; static const char *e2e_msg;
static void check_blackbox_last(const char *want);
static const int LIMITS[] = { 512, 32, 4, 3, 2, 1, 0, -1, 513, 4096, 4097 };
#define NLIM 11
static const char LETTERS[] = "nflptTbgNPHq%";       /* q: unknown, %: literal-looking, plus end-of-string below */
static const int WIDTHS[] = { -1, 0, 1, 5, 600 };
static const char *prio_names[] = { "emerg", "alert", "crit", "error", "warning", "notice", "info", "debug", "trace" };
static char hostname_buf[256];

static const char *tags_fn(uint32_t tags) { (void)tags; return "tagX"; }

struct item { int literal; int ralign, width; char letter; };   /* literal: 1 "x", 2 300 x 'y' */
static struct item IT[3];
static int nit;

static int build_format(char *fmt, size_t cap)
{
	int i; size_t l = 0;
	for (i = 0; i < nit; i++) {
		if (IT[i].literal == 1) l += snprintf(fmt + l, cap - l, "x");
		else if (IT[i].literal == 3) l += snprintf(fmt + l, cap - l, "\n");
		else if (IT[i].literal == 2) { memset(fmt + l, 'y', 300); l += 300; fmt[l] = 0; }
		else {
			l += snprintf(fmt + l, cap - l, "%%%s", IT[i].ralign ? "-" : "");
			if (IT[i].width >= 0) l += snprintf(fmt + l, cap - l, "%d", IT[i].width);
			if (IT[i].letter) l += snprintf(fmt + l, cap - l, "%c", IT[i].letter);
		}
	}
	return (int)l;
}

/* reference: full line as the documented directives prescribe; returns 0 if the format is outside the documented set */
static int reference(char *out, size_t cap, const char *msg, uint32_t lineno, uint8_t prio, const struct timespec *ts, int *has_ralign)
{
	int i; size_t l = 0;
	char tmp[6000];
	*has_ralign = 0;
	for (i = 0; i < nit; i++) {
		const char *p = tmp;
		size_t len, cut;
		if (IT[i].literal == 1) { if (l + 1 < cap) out[l++] = 'x'; continue; }
		if (IT[i].literal == 3) { if (l + 1 < cap) out[l++] = '\n'; continue; }
		if (IT[i].literal == 2) { if (l + 300 < cap) { memset(out + l, 'y', 300); l += 300; } continue; }
		switch (IT[i].letter) {
		case 'n': p = "my_function"; break;
		case 'f': p = "dir/my_file.c"; break;
		case 'l': snprintf(tmp, sizeof tmp, "%u", lineno); break;
		case 'p': p = prio_names[prio > 8 ? 8 : prio]; break;
		case 't': case 'T': {
			struct tm tm; time_t s = ts->tv_sec; size_t n;
			static const char *mon[] = { "Jan", "Feb", "Mar", "Apr", "May", "Jun", "Jul", "Aug", "Sep", "Oct", "Nov", "Dec" };
			localtime_r(&s, &tm);
			n = snprintf(tmp, sizeof tmp, "%s %02d %02d:%02d:%02d", mon[tm.tm_mon], tm.tm_mday, tm.tm_hour, tm.tm_min, tm.tm_sec);
			if (IT[i].letter == 'T') snprintf(tmp + n, sizeof tmp - n, ".%03llu", (unsigned long long)(ts->tv_nsec / 1000000));
			break; }
		case 'b': p = msg; break;
		case 'g': p = "tagX"; break;
		case 'N': p = "vp-name"; break;
		case 'P': snprintf(tmp, sizeof tmp, "%d", getpid()); break;
		case 'H': p = hostname_buf; break;
		default: return 0;
		}
		len = strlen(p);
		cut = IT[i].width > 0 ? (size_t)IT[i].width : len;
		if (len > cut) len = cut;
		if (l + cut >= cap) return 0;
		if (IT[i].ralign && cut > len) { *has_ralign = 1; memset(out + l, ' ', cut - len); memcpy(out + l + cut - len, p, len); }
		else { memcpy(out + l, p, len); memset(out + l + len, ' ', cut - len); }
		l += cut;
	}
	out[l] = 0;
	return 1;
}

static char *exact_buf(size_t n) { char *b = malloc(n ? n : 1); memset(b, 0x5a, n ? n : 1); return b; }

static void captured_logger(int32_t t, struct qb_log_callsite *cs, struct timespec *ts, const char *msg)
{
	/* end-to-end: the message handed to a target must be a terminated string within the limit */
	size_t n = strnlen(msg, 5000);
	(void)cs; (void)ts;
	if (t == T2) {
		/* a target with extended information switched off gets the text in front of the marker, whatever targets in lower slots did with it */
		size_t want = e2e_plain_len < 511 ? e2e_plain_len : 511;
		t2_calls++;
		if (e2e_plain_len != (size_t)-1 && (n < want || memcmp(msg, e2e_msg, want) || (e2e_plain_len < 511 && n != want)))
			vp_fail("the target without extended information got '%.40s%s' (%zu characters), the text in front of the marker has %zu", msg, n > 40 ? "..." : "", n, e2e_plain_len);
		return;
	}
	if (n >= (size_t)(cur_limit > 512 ? cur_limit : 512)) vp_fail("message handed to the target has %zu characters, the largest limit of an enabled target is %d", n, cur_limit > 512 ? cur_limit : 512);
	vp_outcome(&n, sizeof n);
}

static void run(void)
{
	char fmt[1400], ref[8000], msg[5100];
	int li = vp_choose(NLIM, "max_line_length"), L = LIMITS[li], ell, i, rc, judge, has_ralign, mclass, nl, xc;
	size_t mlen;
	struct qb_log_callsite cs;
	struct timespec ts = { 1700000000, 123456789 };
	char *out;

	rc = qb_log_ctl(T, QB_LOG_CONF_MAX_LINE_LEN, L);
	vp_log("ctl(MAX_LINE_LEN, %d) = %d", L, rc);
	if (rc != 0) { vp_outcome_u64(1000 + li); return; }       /* not accepted: nothing to demand */
	cur_limit = L;
	ell = vp_choose(2, "ellipsis");
	qb_log_ctl(T, QB_LOG_CONF_ELLIPSIS, ell);

	nit = nl_second ? 3 : 1 + vp_choose(nitems_max, "number of items");
	for (i = 0; i < nit; i++) {
		if (nl_second && i == 1) { memset(&IT[i], 0, sizeof IT[i]); IT[i].literal = 3; continue; }   /* <item> newline <item> */
		int nl_letters = (int)strlen(LETTERS) + 1, nw = thin && i == 2 ? 2 : 5;
		int c = vp_choose(3 + 2 * nw * nl_letters, "item");
		memset(&IT[i], 0, sizeof IT[i]);
		if (c < 3) { IT[i].literal = c + 1; continue; }     /* 'x', 300 x 'y', a newline in the middle of the format */
		c -= 3;
		IT[i].ralign = c % 2; c /= 2;
		IT[i].width = WIDTHS[(thin && i == 2) ? (c % nw) * 3 : c % nw]; c /= nw;
		IT[i].letter = c < (int)strlen(LETTERS) ? LETTERS[c] : 0;
	}
	build_format(fmt, sizeof fmt);

	mclass = vp_choose(7, "message length");
	{
		long lens[7] = { 0, 1, (long)L - 2, (long)L - 1, L, (long)L + 1, 5000 };
		long m = lens[mclass];
		if (m < 0) m = 0;
		if (m > 5000) m = 5000;
		mlen = (size_t)m;
	}
	nl = vp_choose(2, "trailing newline");
	xc = e2e ? vp_choose(4, "extended marker") : 0;
	memset(msg, 'm', mlen); msg[mlen] = 0;
	if (nl && mlen) msg[mlen - 1] = '\n';
	if (xc && mlen) msg[xc == 1 ? 0 : xc == 2 ? mlen / 2 : mlen - 1] = QB_XC;
	vp_log("format '%.80s%s' (%zu chars), message %zu chars%s, limit %d, ellipsis %d", fmt, strlen(fmt) > 80 ? "..." : "", strlen(fmt), mlen, nl ? " + newline" : "", L, ell);

	if (!e2e) {
		size_t n, k;
		{ char *exact = strdup(fmt); qb_log_format_set(T, exact); free(exact); }   /* exact-size heap copy: over-reads are seen */
		memset(&cs, 0, sizeof cs);
		/* call-site data: priorities up to the last named one, the first one beyond the table, and the largest value */
		static const uint8_t PRIOS[] = { LOG_INFO, LOG_TRACE, LOG_TRACE + 1, 255 };
		uint8_t prio = LOG_INFO;
		{ const char *q; for (q = fmt; (q = strchr(q, '%')) != NULL; q++) { const char *e = q + 1; while (*e == '-' || (*e >= '0' && *e <= '9')) e++; if (*e == 'p') { prio = PRIOS[vp_choose(4, "call-site priority")]; break; } } }
		cs.function = "my_function"; cs.filename = "dir/my_file.c"; cs.format = "%s"; cs.priority = prio; cs.lineno = 4242; cs.tags = 7;
		out = exact_buf((size_t)L);
		qb_log_target_format(T, &cs, &ts, msg, out);
		/* NUL within the limit */
		n = strnlen(out, (size_t)L);
		if (n >= (size_t)L) vp_fail("formatted line is not NUL-terminated within max_line_length %d", L);
		judge = reference(ref, sizeof ref, msg, 4242, prio, &ts, &has_ralign);
		if (judge) {
			size_t rl = strlen(ref);
			if (rl < (size_t)L) {
				/* fits: exact text (a trailing newline is dropped) */
				char want[8000];
				snprintf(want, sizeof want, "%s", ref);
				if (rl && want[rl - 1] == '\n') want[rl - 1] = 0;
				if (0) {
				} else if (strcmp(out, want))
					vp_fail("line is '%.70s'%s, the documented directives give '%.70s' (format '%.40s')", out, n > 70 ? "..." : "", want, fmt);
			} else if (!has_ralign && L >= 4) {
				/* truncated: a prefix of the full line, marked with "..." when asked for */
				k = ell ? (n >= 3 ? n - 3 : 0) : n;
				if (n == (size_t)L - 2 && ell) { free(out); return; }   /* newline dropped after the cut: ellipsis position not specified */
				/* the cut line is full, except that a newline landing on the last position is dropped */
				if (n != (size_t)L - 1 && !(n == (size_t)L - 2 && ref[L - 2] == '\n'))
					vp_fail("truncated line has %zu characters, limit %d allows %d", n, L, L - 1);
				if (n == (size_t)L - 2) k = n;
				if (strncmp(out, ref, k)) vp_fail("truncated line is not a prefix of the full line: '%.50s' vs '%.50s'", out, ref);
				if (ell && n >= 3 && strcmp(out + n - 3, "...")) vp_fail("truncated line does not end in an ellipsis: '...%s'", out + (n > 8 ? n - 8 : 0));
			}
		}
		vp_outcome(out, n);
		vp_state(vp_hash(fmt, strlen(fmt), (uint64_t)L * 7 + (uint64_t)mclass));
		free(out);
	} else {
		/* end to end: a log call whose printf format expands to the message, through a custom target and a file target */
		qb_log_format_set(T, fmt);
		/* the file target formats the same call with the same format and limit into a buffer of its own choosing */
		if (FT >= 0) { qb_log_ctl(FT, QB_LOG_CONF_MAX_LINE_LEN, L); qb_log_ctl(FT, QB_LOG_CONF_ELLIPSIS, ell); qb_log_format_set(FT, fmt); }
		{ const char *m = xc ? strchr(msg, QB_XC) : NULL; size_t pl = m ? (size_t)(m - msg) : mlen; if (!m && nl && pl) pl--; e2e_plain_len = pl; e2e_msg = msg; }
		qb_log_from_external_source("my_function", "dir/my_file.c", "%s", LOG_INFO, 4242, 0, msg);
		e2e_plain_len = (size_t)-1;
		qb_log_from_external_source("my_function", "dir/my_file.c", msg[0] ? "%.0s" : "", LOG_INFO, 4243, 0, "unused");
		/* a call with several arguments that goes to a text target in a low slot (stderr), to the blackbox and to the custom
		   target at once: every one of them has to see the same arguments */
		{ static int once; if (once) goto skip_multi; once = 1; }      /* independent of the target format: once per process (an isolated replay does it too) */
		{
			int save = dup(2);
			dup2(devnull, 2);
			qb_log_from_external_source("my_function", "dir/my_file.c", "v %d %s %d", LOG_NOTICE, 4244, 0, 11, "str", 33);
			dup2(save, 2); close(save);
			check_blackbox_last("v 11 str 33");
		}
skip_multi:;
		vp_state(vp_hash(fmt, strlen(fmt), (uint64_t)L * 7 + (uint64_t)mclass + 1000));
	}
}

/* the newest record of the blackbox, read the way the dump printer reads it */
static void check_blackbox_last(const char *want)
{
	static char chunk[2048 + 64], text[1024], last[1024], path[128];
	unsigned char hdr[20];
	qb_ringbuffer_t *rb;
	ssize_t r; int fd, n = 0;
	snprintf(path, sizeof path, "/dev/shm/vp13-%d.dump", vp_worker_id());
	unlink(path);
	if (qb_log_blackbox_write_to_file(path) < 0) vp_fail("qb_log_blackbox_write_to_file failed");
	fd = open(path, O_RDONLY);
	if (fd < 0 || read(fd, hdr, sizeof hdr) != (ssize_t)sizeof hdr) vp_fail("the blackbox dump cannot be read");
	rb = qb_rb_create_from_file(fd, 0);
	close(fd); unlink(path);
	if (!rb) vp_fail("the blackbox dump cannot be loaded");
	last[0] = 0;
	while ((r = qb_rb_chunk_read(rb, chunk, 2048, 0)) > 0) {
		uint32_t fn_size; char *p = chunk + 9;
		memset(chunk + r, 0, 64);
		memcpy(&fn_size, p, 4); p += 4;
		if (fn_size == 0 || (ssize_t)fn_size + 33 > r) vp_fail("blackbox record with function-name size %u", fn_size);
		p += fn_size + sizeof(struct timespec) + 4;
		qb_vsnprintf_deserialize(text, sizeof text, p);
		snprintf(last, sizeof last, "%s", text); n++;
	}
	qb_rb_close(rb);
	if (!n) vp_fail("the blackbox holds no record after a log call");
	if (strcmp(last, want)) vp_fail("the blackbox recorded '%.60s' for a call whose text is '%s' (the stderr target formatted the same call first)", last, want);
}
static void setup(void)
{
	gethostname(hostname_buf, sizeof hostname_buf);
	qb_log_init("vp-name", LOG_USER, LOG_EMERG);
	qb_log_ctl(QB_LOG_SYSLOG, QB_LOG_CONF_ENABLED, QB_FALSE);
	qb_log_tags_stringify_fn_set(tags_fn);
	T = qb_log_custom_open(captured_logger, NULL, NULL, NULL);
	if (T < 0) vp_broken("custom_open failed");
	qb_log_filter_ctl(T, QB_LOG_FILTER_ADD, QB_LOG_FILTER_FILE, "*", LOG_TRACE);
	if (e2e) {
		qb_log_ctl(T, QB_LOG_CONF_ENABLED, QB_TRUE);
		devnull = open("/dev/null", O_WRONLY);
		qb_log_filter_ctl(QB_LOG_STDERR, QB_LOG_FILTER_ADD, QB_LOG_FILTER_FILE, "*", LOG_NOTICE);
		qb_log_ctl(QB_LOG_STDERR, QB_LOG_CONF_ENABLED, QB_TRUE);
		qb_log_ctl(QB_LOG_BLACKBOX, QB_LOG_CONF_SIZE, 4096);
		qb_log_filter_ctl(QB_LOG_BLACKBOX, QB_LOG_FILTER_ADD, QB_LOG_FILTER_FILE, "*", LOG_NOTICE);
		qb_log_ctl(QB_LOG_BLACKBOX, QB_LOG_CONF_ENABLED, QB_TRUE);
		/* a second custom target, in a higher slot, that does not want extended information; its line is the bare message */
		T2 = qb_log_custom_open(captured_logger, NULL, NULL, NULL);
		if (T2 < 0) vp_broken("second custom_open failed");
		qb_log_filter_ctl(T2, QB_LOG_FILTER_ADD, QB_LOG_FILTER_FILE, "*", LOG_TRACE);
		qb_log_format_set(T2, "%b");
		qb_log_ctl(T2, QB_LOG_CONF_EXTENDED, QB_FALSE);
		qb_log_ctl(T2, QB_LOG_CONF_ENABLED, QB_TRUE);
		FT = qb_log_file_open("/dev/null");
		if (FT >= 0) {
			qb_log_filter_ctl(FT, QB_LOG_FILTER_ADD, QB_LOG_FILTER_FILE, "*", LOG_TRACE);
			qb_log_ctl(FT, QB_LOG_CONF_ENABLED, QB_TRUE);
		}
	}
}

static void init(void)
{
	nitems_max = (int)vp_param("max_items", 2, 3);
	thin = (int)vp_param("thin_third_item", 1, 1);
	e2e = (int)vp_param("end_to_end", 0, 0);
	nl_second = (int)vp_param("newline_in_the_middle", 0, 0);
}

int main(int argc, char **argv)
{
	static struct vp_harness h = {
		.property = "C13", .name = "c13_log_format", .level = "exploration",
		.run = run, .init = init, .setup = setup, .batch = 20000, .private_shm = 1,
		.rule = "grammar enumeration: target formats of <= max_items items from {literal, 300-char literal, % [-] [width in none,0,1,5,600] "
			"letter in n f l p t T b g N P H, unknown q, %, end of string} x max_line_length in {512,32,4,3,2,1,0,-1,513,4096,4097} (whatever "
			"qb_log_ctl accepts) x ellipsis x message length in {0,1,L-2,L-1,L,L+1,5000} x trailing newline; qb_log_format_set + "
			"qb_log_target_format into an exact-size heap buffer (ASan), text compared with a reference formatter for formats made of "
			"documented directives; end_to_end=1: log calls through a custom and a file target incl. empty expansions and the "
			"extended-information marker; distinct = distinct output lines",
		.assumptions = { "'-' pads on the left as in tests/check_log.c; the exact text of a right-aligned field cut by the limit is not judged",
				 "TZ=UTC, fixed timestamp", NULL },
	};
	return vp_main(argc, argv, &h);
}
