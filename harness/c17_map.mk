LDFLAGS_c17_map := -Wl,--wrap=random
EXTRA_DEPS_c17_map := harness/maps_common.h
