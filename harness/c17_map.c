/* C17: the three maps behave like a dictionary; notifiers fire exactly once */
#define WITH_ITERS 0
#include "maps_common.h"

static void init(void)
{
	depth = (int)vp_param("depth", 4, 5);
	only_type = (int)vp_param("only_type", -1, -1);
	nkeys_used = (int)vp_param("keys", 8, 8);
	seeds_on = (int)vp_param("seeded_starts", 0, 0);
	level_choices = (int)vp_param("skiplist_level_choices", 0, 1);
}
int main(int argc, char **argv)
{
	static struct vp_harness h = {
		.property = "C17", .name = "c17_map", .level = "model_checking",
		.run = run, .init = init, .batch = 5000,
		.rule = "every history of <= depth operations (put/rm on 8 colliding keys, full iteration, prefix iteration, foreach abandoned "
			"after one item, notifier add/del for 4 registrations, destroy) on each real map type, compared step by step with a "
			"dictionary + registration model; get of every key and count audited after every step; distinct = final model states",
		.assumptions = { "skiplist levels come from a wrapped random(): a fixed function of the key, deviations explored up to the bound",
				 "per-key notifiers are judged only during the life of the entry they were registered on",
				 "INSERTED notifications are demanded on tries only (documented)", "values non-NULL, keys non-empty", NULL },
	};
	return vp_main(argc, argv, &h);
}
