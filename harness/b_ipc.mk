IPC_WRAP := $(SCHED_WRAP) -Wl,--wrap=sem_timedwait -Wl,--wrap=clock_gettime -Wl,--wrap=clock_getres -Wl,--wrap=nanosleep -Wl,--wrap=usleep \
  -Wl,--wrap=poll -Wl,--wrap=epoll_wait -Wl,--wrap=send -Wl,--wrap=recv -Wl,--wrap=sendmsg -Wl,--wrap=recvmsg -Wl,--wrap=writev -Wl,--wrap=kill -Wl,--wrap=socket -Wl,--wrap=accept
EXTRA_c02_ipc_fifo := $(SCHED_O)
LDFLAGS_c02_ipc_fifo := $(IPC_WRAP)
