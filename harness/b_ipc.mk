IPC_WRAP := $(SCHED_WRAP) -Wl,--wrap=sem_timedwait -Wl,--wrap=clock_gettime -Wl,--wrap=clock_getres -Wl,--wrap=nanosleep -Wl,--wrap=usleep \
  -Wl,--wrap=poll -Wl,--wrap=epoll_wait -Wl,--wrap=send -Wl,--wrap=recv -Wl,--wrap=sendmsg -Wl,--wrap=recvmsg -Wl,--wrap=writev -Wl,--wrap=kill -Wl,--wrap=socket -Wl,--wrap=accept -Wl,--wrap=close -Wl,--wrap=epoll_create1 -Wl,--wrap=connect -Wl,--wrap=bind -Wl,--wrap=shutdown -Wl,--wrap=unlink -Wl,--wrap=rmdir -Wl,--wrap=mkdtemp -Wl,--wrap=ftruncate -Wl,--wrap=chmod -Wl,--wrap=chown -Wl,--wrap=munmap -Wl,--wrap=open
EXTRA_c02_ipc_fifo := $(SCHED_O)
LDFLAGS_c02_ipc_fifo := $(IPC_WRAP)
EXTRA_c04_ipc_callbacks := $(SCHED_O)
LDFLAGS_c04_ipc_callbacks := $(IPC_WRAP)
EXTRA_c03_ipc_death := $(SCHED_O)
LDFLAGS_c03_ipc_death := $(IPC_WRAP)
EXTRA_c05_ipc_admission := $(SCHED_O)
LDFLAGS_c05_ipc_admission := $(IPC_WRAP)
EXTRA_c06_ipc_hostile := $(SCHED_O)
LDFLAGS_c06_ipc_hostile := $(IPC_WRAP)
