/* The IPC world: a real qb_ipcs server (on a real qb_loop) and real qb_ipcc / raw clients as coroutines in
 * ONE process on ONE thread.  Sockets, epoll, shared memory and files are the real kernel objects; only
 * waiting is virtual: every call that may block asks the kernel with a zero timeout and, if nothing is
 * ready, parks the coroutine until the condition holds or its virtual deadline passes (DESIGN.md §1.4). */
#include "vp_sched.h"
#include <qb/qbdefs.h>
#include <qb/qbutil.h>
#include <qb/qbloop.h>
#include <qb/qbipcs.h>
#include <qb/qbipcc.h>
#include <errno.h>
#include <stdio.h>
#include <stdarg.h>
#include <string.h>
#include <stdlib.h>
#include <unistd.h>
#include <fcntl.h>
#include <dirent.h>
#include <time.h>
#include <poll.h>
#include <signal.h>
#include <semaphore.h>
#include <sys/epoll.h>
#include <sys/socket.h>
#include <sys/stat.h>
#include <sys/uio.h>
#include <sys/un.h>

#define W_NEVER (~0ULL)
#define W_BASE 1700000000ULL * 1000000000ULL
static uint64_t W_now = W_BASE;
static uint64_t W_horizon_ns = 600ULL * 1000000000ULL;      /* an execution may not need more virtual time than this */
static uint64_t W_epoch;
enum { WK_NONE, WK_POLL, WK_EPOLL, WK_SEM, WK_SLEEP, WK_CHANGE };
struct waiter { int kind, active; struct pollfd pfd[4]; int npfd, epfd; sem_t *sem; uint64_t deadline, epoch; };
static struct waiter WT[VP_MAXCO + 1];
static int W_dead[VP_MAXCO + 1];                           /* parties that were killed */
static long W_calls[VP_MAXCO + 1];                         /* wrapped calls made by each coroutine */
static long W_kill_at[VP_MAXCO + 1];                       /* kill the coroutine before its K-th wrapped call (0 = never) */
/* death at an arbitrary moment of the OTHER side's execution (SIGKILL while the victim is wherever it is, also blocked):
   the victim dies just before the J-th wrapped call the observer makes after the order was armed */
static int W_patch_maxmsg = -1;   /* >= 0: the next handshake request that is sent carries this max_msg_size */
static int W_eintr_budget;    /* that many blocking sem_timedwait calls are interrupted by a (handled) signal half-way */
static int W_poke_server;     /* the server application has something to do on its own (a timer of its own fired): its loop wakes up once */
static int W_hit_victim = -1, W_hit_observer = -1, W_hit_done;
static long W_hit_at, W_hit_base;
static void (*W_server_turn)(void);                        /* harness: runs at every server loop iteration boundary */
static int W_server_co = -1;
static int W_dead_server_pid;                              /* kill(pid,0) answers ESRCH for this pid */
static qb_loop_t *SL;
static qb_ipcs_service_t *SV;
static char svc_name[64];
static int W_free_choices;                                 /* harness: relative speed of the parties is an explorer choice right now */
static int W_small_bufs;                                   /* environment: minimum stream socket buffers */
static void (*W_fs_hook)(const char *call);                /* harness: called after every wrapped file-system call */
static struct { int set; uid_t uid; gid_t gid; } W_cred[VP_MAXCO + 1];   /* a party runs under its own real+effective ids */

static int W_stop_server;                                  /* harness: the server loop shall stop at its next iteration boundary */
static void (*W_on_death)(int co);                         /* harness: closes the descriptors of a party that died */

int __real_poll(struct pollfd *f, nfds_t n, int t);
int __real_epoll_wait(int e, struct epoll_event *ev, int m, int t);
int __real_sem_trywait(sem_t *s);
int __real_sem_getvalue(sem_t *s, int *v);
ssize_t __real_send(int fd, const void *b, size_t n, int fl);
ssize_t __real_recv(int fd, void *b, size_t n, int fl);
ssize_t __real_sendmsg(int fd, const struct msghdr *m, int fl);
ssize_t __real_recvmsg(int fd, struct msghdr *m, int fl);
ssize_t __real_writev(int fd, const struct iovec *iov, int n);
int __real_kill(pid_t p, int s);

static void w_reset(void)
{
	W_now = W_BASE; W_epoch = 0;
	memset(WT, 0, sizeof WT); memset(W_dead, 0, sizeof W_dead); memset(W_calls, 0, sizeof W_calls); memset(W_kill_at, 0, sizeof W_kill_at); W_hit_victim = W_hit_observer = -1; W_hit_done = 0; W_hit_at = 0; W_poke_server = 0; W_eintr_budget = 0; W_patch_maxmsg = -1; memset(W_cred, 0, sizeof W_cred); W_fs_hook = NULL;
	W_server_co = -1; W_dead_server_pid = 0; W_stop_server = 0; W_free_choices = 0; W_small_bufs = 0;
}

static int w_ready(void *p)
{
	struct waiter *w = p;
	struct epoll_event ev;
	int v = 0;
	if (w->deadline != W_NEVER && W_now >= w->deadline) return 1;
	switch (w->kind) {
	case WK_POLL: return __real_poll(w->pfd, (nfds_t)w->npfd, 0) != 0;
	case WK_EPOLL: return W_stop_server || W_poke_server || __real_epoll_wait(w->epfd, &ev, 1, 0) != 0;
	case WK_SEM: __real_sem_getvalue(w->sem, &v); return v > 0;
	case WK_CHANGE: return W_epoch != w->epoch;
	default: return 0;
	}
}
static int w_idle(void)
{
	uint64_t m = W_NEVER;
	int i;
	for (i = 0; i < VP_MAXCO; i++) if (WT[i].active && !W_dead[i] && WT[i].deadline < m) m = WT[i].deadline;
	/* nobody can run.  A party that is to die before its next call and waits without a deadline dies in that call */
	for (i = 0; i < VP_MAXCO; i++) if (WT[i].active && !W_dead[i] && WT[i].deadline == W_NEVER && W_kill_at[i] && W_calls[i] + 1 >= W_kill_at[i]) {
		W_dead[i] = 1; WT[i].active = 0;
		vp_log("  *** %s dies while blocked in its wrapped call #%ld", vp_co_name(i), W_calls[i]);
		if (W_on_death) W_on_death(i);
		vp_co_kill(i);
		W_epoch++;
		return 1;
	}
	if (m == W_NEVER) {
		/* everybody waits without a deadline.  A party that is to die before its next call and sits in a call that
		   will never return dies there: for the others that is the same crash point */
		for (i = 0; i < VP_MAXCO; i++) if (WT[i].active && !W_dead[i] && W_kill_at[i] && W_calls[i] + 1 >= W_kill_at[i]) {
			W_dead[i] = 1; WT[i].active = 0;
			vp_log("  *** %s dies while blocked in its wrapped call #%ld", vp_co_name(i), W_calls[i]);
			if (W_on_death) W_on_death(i);
			vp_co_kill(i);
			W_epoch++;
			return 1;
		}
		/* a crash point that is never reached because the party makes no further call: same as the complete run */
		for (i = 0; i < VP_MAXCO; i++) if (!W_dead[i] && W_kill_at[i] && W_calls[i] + 1 < W_kill_at[i] && WT[i].active) {
			vp_pruned();
			vp_co_abort();
		}
		return 0;
	}
	if (m > W_now) W_now = m;
	if (W_now - W_BASE > W_horizon_ns) {
		/* a crash point that is never reached (the party makes no further call while the others wait with timeouts) */
		for (i = 0; i < VP_MAXCO; i++) if (!W_dead[i] && W_kill_at[i] && W_calls[i] + 1 < W_kill_at[i]) { vp_pruned(); vp_co_abort(); }
	}
	if (W_now - W_BASE > W_horizon_ns) vp_fail("virtual time horizon of %llu s exceeded: a party keeps waiting or polling without progress", (unsigned long long)(W_horizon_ns / 1000000000ULL));
	W_epoch++;
	return 1;
}
#include <sys/syscall.h>
static void w_switch(int from, int to)
{
	(void)from;
	W_epoch++;
	/* the kernel attaches the REAL ids to SO_PASSCRED messages and checks the EFFECTIVE ones on files: switch both
	   for this thread only (raw syscalls), the saved ids stay 0 so that the way back is open */
	syscall(SYS_setresuid, 0, 0, -1); syscall(SYS_setresgid, 0, 0, -1);
	if (to >= 0 && W_cred[to].set) { syscall(SYS_setresgid, W_cred[to].gid, W_cred[to].gid, -1); syscall(SYS_setresuid, W_cred[to].uid, W_cred[to].uid, -1); }
}

static void w_wait(struct waiter *tmpl, const char *what)
{
	int me_ = vp_co_self();
	struct waiter *w;
	if (me_ < 0) vp_fail("the main context would block in %s", what);
	w = &WT[me_];
	*w = *tmpl; w->active = 1;
	vp_block(w_ready, w, what);
	w->active = 0;
}

static void w_hit_check(int me_, const char *tag)
{
	int v = W_hit_victim;
	if (v < 0 || me_ != W_hit_observer || W_hit_done || W_calls[me_] - W_hit_base != W_hit_at) return;
	W_hit_done = 1;
	if (W_dead[v] || vp_co_done(v)) return;
	W_dead[v] = 1; WT[v].active = 0;
	vp_log("  *** %s dies (wherever it is: after its wrapped call #%ld) just before %s's wrapped call #%ld (%s)", vp_co_name(v), W_calls[v], vp_co_name(me_), W_hit_at, tag);
	if (W_on_death) W_on_death(v);
	vp_co_kill(v);
	W_epoch++;
}
static void w_hit_arm(int victim, int observer, long at) { W_hit_victim = victim; W_hit_observer = observer; W_hit_at = at; W_hit_base = W_calls[observer]; W_hit_done = 0; }

/* every wrapped call of a coroutine passes here: scheduling point + crash injection */
static void w_call(const char *tag)
{
	int me_ = vp_co_self();
	if (me_ < 0 || !vp_sched_active) return;
	W_calls[me_]++;
	w_hit_check(me_, tag);
	if (W_kill_at[me_] && W_calls[me_] == W_kill_at[me_]) {
		W_dead[me_] = 1;
		vp_log("  *** %s dies before its wrapped call #%ld (%s)", vp_co_name(me_), W_calls[me_], tag);
		if (W_on_death) W_on_death(me_);
		vp_co_exit();
	}
	if (W_free_choices) vp_point(tag);
}
static uint64_t ms_deadline(int ms) { return ms < 0 ? W_NEVER : W_now + (uint64_t)ms * 1000000ULL; }

int __wrap_clock_gettime(clockid_t id, struct timespec *ts);
int __wrap_clock_gettime(clockid_t id, struct timespec *ts) { (void)id; ts->tv_sec = (time_t)(W_now / 1000000000ULL); ts->tv_nsec = (long)(W_now % 1000000000ULL); return 0; }
int __wrap_clock_getres(clockid_t id, struct timespec *ts);
int __wrap_clock_getres(clockid_t id, struct timespec *ts) { (void)id; ts->tv_sec = 0; ts->tv_nsec = 1; return 0; }

int __wrap_nanosleep(const struct timespec *req, struct timespec *rem);
int __wrap_nanosleep(const struct timespec *req, struct timespec *rem)
{
	struct waiter w = { .kind = WK_SLEEP };
	if (rem) { rem->tv_sec = 0; rem->tv_nsec = 0; }
	if (vp_co_self() < 0) { W_now += (uint64_t)req->tv_sec * 1000000000ULL + (uint64_t)req->tv_nsec; return 0; }
	w_call("nanosleep");
	w.deadline = W_now + (uint64_t)req->tv_sec * 1000000000ULL + (uint64_t)req->tv_nsec;
	w_wait(&w, "nanosleep");
	return 0;
}
int __wrap_usleep(unsigned us);
int __wrap_usleep(unsigned us) { struct timespec ts = { us / 1000000, (long)(us % 1000000) * 1000 }; return __wrap_nanosleep(&ts, NULL); }

int __wrap_poll(struct pollfd *f, nfds_t n, int timeout);
int __wrap_poll(struct pollfd *f, nfds_t n, int timeout)
{
	int r;
	struct waiter w = { .kind = WK_POLL };
	w_call("poll");
	r = __real_poll(f, n, 0);
	if (r != 0 || timeout == 0 || vp_co_self() < 0) return r;
	if (n > 4) vp_broken("poll on more than 4 descriptors");
	memcpy(w.pfd, f, sizeof(struct pollfd) * n); w.npfd = (int)n; w.deadline = ms_deadline(timeout);
	w_wait(&w, "poll");
	return __real_poll(f, n, 0);
}

int __wrap_epoll_wait(int epfd, struct epoll_event *ev, int maxev, int timeout);
int __wrap_epoll_wait(int epfd, struct epoll_event *ev, int maxev, int timeout)
{
	int r;
	struct waiter w = { .kind = WK_EPOLL };
	if (vp_co_self() < 0) return __real_epoll_wait(epfd, ev, maxev, 0);
	/* one call = one loop iteration = the server's voluntary yield point (no preemption cost) */
	W_calls[vp_co_self()]++;
	w_hit_check(vp_co_self(), "epoll_wait");
	if (W_kill_at[vp_co_self()] && W_calls[vp_co_self()] == W_kill_at[vp_co_self()]) {
		W_dead[vp_co_self()] = 1;
		vp_log("  *** %s dies at a loop iteration boundary (wrapped call #%ld)", vp_co_name(vp_co_self()), W_calls[vp_co_self()]);
		if (W_on_death) W_on_death(vp_co_self());
		vp_co_exit();
	}
	{
		/* a loop that finds the same descriptors ready again and again shares the CPU with the other processes:
		   after a few such iterations it waits until somebody else has run (or 1 ms has passed) */
		static uint64_t last_epoch; static int spins;
		if (W_epoch == last_epoch) spins++; else spins = 0;
		last_epoch = W_epoch;
		if (spins > 6) {
			struct waiter cw = { .kind = WK_CHANGE };
			cw.epoch = W_epoch; cw.deadline = W_now + 1000000ULL;
			w_wait(&cw, "busy server loop");
			spins = 0; last_epoch = W_epoch;
		}
	}
	if (W_free_choices) vp_yield_free("server iteration");
	if (W_stop_server && vp_co_self() == W_server_co) { qb_loop_stop(SL); return 0; }
	if (W_server_turn && vp_co_self() == W_server_co) W_server_turn();
	r = __real_epoll_wait(epfd, ev, maxev, 0);
	if (r != 0 || timeout == 0) { W_now += 1000; return r; }
	w.epfd = epfd; w.deadline = ms_deadline(timeout);
	w_wait(&w, "epoll_wait");
	W_poke_server = 0;
	if (W_stop_server && vp_co_self() == W_server_co) { qb_loop_stop(SL); return 0; }
	r = __real_epoll_wait(epfd, ev, maxev, 0);
	W_now += 1000;
	return r;
}

int __wrap_sem_timedwait(sem_t *s, const struct timespec *abs);
int __wrap_sem_timedwait(sem_t *s, const struct timespec *abs)
{
	struct waiter w = { .kind = WK_SEM, .sem = s };
	w_call("sem_timedwait");
	if (__real_sem_trywait(s) == 0) return 0;
	w.deadline = (uint64_t)abs->tv_sec * 1000000000ULL + (uint64_t)abs->tv_nsec;
	if (W_eintr_budget > 0 && vp_co_self() >= 0 && w.deadline > W_now + 2000000ULL) {
		/* a handled signal arrives half-way through the wait: the call returns EINTR (its caller has to go on waiting
		   for the rest of ITS timeout, not for a fresh one) */
		struct waiter h = { .kind = WK_SLEEP };
		W_eintr_budget--;
		h.deadline = W_now + (w.deadline - W_now) / 2;
		w_wait(&h, "sem_timedwait (until a signal interrupts it)");
		if (__real_sem_trywait(s) == 0) return 0;
		vp_log("  (sem_timedwait interrupted by a signal: EINTR)");
		errno = EINTR; return -1;
	}
	for (;;) {
		if (W_now >= w.deadline) { errno = ETIMEDOUT; return -1; }
		w_wait(&w, "sem_timedwait");
		if (__real_sem_trywait(s) == 0) return 0;
	}
}

static void w_after_eagain(const char *what)
{
	/* a caller that retries a full socket in a loop must let the peer run (or time pass) before trying again */
	struct waiter w = { .kind = WK_CHANGE };
	int e = errno;
	if (vp_co_self() < 0 || !vp_sched_active) return;
	w.epoch = W_epoch; w.deadline = W_now + 1000000ULL;
	w_wait(&w, what);
	errno = e;
}

ssize_t __wrap_send(int fd, const void *b, size_t n, int fl);
ssize_t __wrap_send(int fd, const void *b, size_t n, int fl)
{
	ssize_t r;
	unsigned char patched[24];
	w_call("send");
	if (W_patch_maxmsg >= 0 && n == 24 && ((const int32_t *)b)[0] == QB_IPC_MSG_AUTHENTICATE) {
		/* a hostile client announces its own maximum message size in an otherwise regular handshake */
		int32_t v = W_patch_maxmsg;
		memcpy(patched, b, 24); memcpy(patched + 16, &v, 4); b = patched; W_patch_maxmsg = -1;
	}
	r = __real_send(fd, b, n, fl | MSG_DONTWAIT);
	if (r < 0 && (errno == EAGAIN || errno == EWOULDBLOCK)) w_after_eagain("send on a full socket");
	return r;
}
ssize_t __wrap_recv(int fd, void *b, size_t n, int fl);
ssize_t __wrap_recv(int fd, void *b, size_t n, int fl) { w_call("recv"); return __real_recv(fd, b, n, fl | MSG_DONTWAIT); }
ssize_t __wrap_sendmsg(int fd, const struct msghdr *m, int fl);
ssize_t __wrap_sendmsg(int fd, const struct msghdr *m, int fl) { w_call("sendmsg"); return __real_sendmsg(fd, m, fl | MSG_DONTWAIT); }
ssize_t __wrap_recvmsg(int fd, struct msghdr *m, int fl);
ssize_t __wrap_recvmsg(int fd, struct msghdr *m, int fl) { w_call("recvmsg"); return __real_recvmsg(fd, m, fl | MSG_DONTWAIT); }
ssize_t __wrap_writev(int fd, const struct iovec *iov, int n);
ssize_t __wrap_writev(int fd, const struct iovec *iov, int n)
{
	ssize_t r;
	w_call("writev");
	r = __real_writev(fd, iov, n);
	if (r < 0 && (errno == EAGAIN || errno == EWOULDBLOCK)) w_after_eagain("writev on a full socket");
	return r;
}
/* environment deviation: stream sockets get the kernel's minimum buffer sizes, so that a handful of unread
   notification bytes produces a genuine EAGAIN (never fabricated) */
int __real_socket(int d, int t, int p);
int __real_accept(int fd, struct sockaddr *a, socklen_t *l);
static void w_shrink(int fd)
{
	int one = 1, type = 0; socklen_t tl = sizeof type;
	if (fd < 0 || !W_small_bufs) return;
	if (getsockopt(fd, SOL_SOCKET, SO_TYPE, &type, &tl) != 0 || type != SOCK_STREAM) return;
	setsockopt(fd, SOL_SOCKET, SO_SNDBUF, &one, sizeof one);
	setsockopt(fd, SOL_SOCKET, SO_RCVBUF, &one, sizeof one);
}
/* which party created a descriptor: when a party dies exactly its descriptors are closed (what the kernel does) */
#define W_MAXFD 1024
static signed char W_fd_owner[W_MAXFD];
static void w_own(int fd) { if (fd >= 0 && fd < W_MAXFD) W_fd_owner[fd] = (signed char)(vp_co_self() + 2); }   /* 1 = main context */
static void w_adopt_main_fds(int co) { int fd; for (fd = 3; fd < W_MAXFD; fd++) if (W_fd_owner[fd] == 1) W_fd_owner[fd] = (signed char)(co + 2); }
static void w_close_fds_of(int co)
{
	int fd;
	for (fd = 3; fd < W_MAXFD; fd++) if (W_fd_owner[fd] == co + 2) { W_fd_owner[fd] = 0; __real_close(fd); }
}
int __real_close(int fd);
int __wrap_close(int fd);
int __wrap_close(int fd) { if (fd >= 0 && fd < W_MAXFD) W_fd_owner[fd] = 0; return __real_close(fd); }
int __real_epoll_create1(int fl);
int __wrap_epoll_create1(int fl);
int __wrap_epoll_create1(int fl) { int fd = __real_epoll_create1(fl); w_own(fd); return fd; }
int __wrap_socket(int d, int t, int p);
int __wrap_socket(int d, int t, int p) { int fd; w_call("socket"); fd = __real_socket(d, t, p); w_shrink(fd); w_own(fd); return fd; }
int __wrap_accept(int fd, struct sockaddr *a, socklen_t *l);
int __wrap_accept(int fd, struct sockaddr *a, socklen_t *l) { int n; w_call("accept"); n = __real_accept(fd, a, l); w_shrink(n); w_own(n); return n; }

/* further libc calls that are crash points of a dying party (pass-through + w_call) */
int __real_connect(int fd, const struct sockaddr *a, socklen_t l);
int __wrap_connect(int fd, const struct sockaddr *a, socklen_t l);
int __wrap_connect(int fd, const struct sockaddr *a, socklen_t l) { w_call("connect"); return __real_connect(fd, a, l); }
int __real_bind(int fd, const struct sockaddr *a, socklen_t l);
int __wrap_bind(int fd, const struct sockaddr *a, socklen_t l);
int __wrap_bind(int fd, const struct sockaddr *a, socklen_t l) { int r_; w_call("bind"); r_ = __real_bind(fd, a, l); if (W_fs_hook) W_fs_hook("bind"); return r_; }
int __real_shutdown(int fd, int how);
int __wrap_shutdown(int fd, int how);
int __wrap_shutdown(int fd, int how) { w_call("shutdown"); return __real_shutdown(fd, how); }
int __real_unlink(const char *p);
int __wrap_unlink(const char *p);
int __wrap_unlink(const char *p) { int r_; w_call("unlink"); r_ = __real_unlink(p); if (W_fs_hook) W_fs_hook("unlink"); return r_; }
int __real_rmdir(const char *p);
int __wrap_rmdir(const char *p);
int __wrap_rmdir(const char *p) { int r_; w_call("rmdir"); r_ = __real_rmdir(p); if (W_fs_hook) W_fs_hook("rmdir"); return r_; }
char *__real_mkdtemp(char *t);
char *__wrap_mkdtemp(char *t);
char *__wrap_mkdtemp(char *t) { char *r_; w_call("mkdtemp"); r_ = __real_mkdtemp(t); if (W_fs_hook) W_fs_hook("mkdtemp"); return r_; }
int __real_ftruncate(int fd, off_t l);
int __wrap_ftruncate(int fd, off_t l);
int __wrap_ftruncate(int fd, off_t l) { int r_; w_call("ftruncate"); r_ = __real_ftruncate(fd, l); if (W_fs_hook) W_fs_hook("ftruncate"); return r_; }
int __real_chmod(const char *p, mode_t m);
int __wrap_chmod(const char *p, mode_t m);
int __wrap_chmod(const char *p, mode_t m) { int r_; w_call("chmod"); r_ = __real_chmod(p, m); if (W_fs_hook) W_fs_hook("chmod"); return r_; }
int __real_chown(const char *p, uid_t u, gid_t g);
int __wrap_chown(const char *p, uid_t u, gid_t g);
int __wrap_chown(const char *p, uid_t u, gid_t g) { int r_; w_call("chown"); r_ = __real_chown(p, u, g); if (W_fs_hook) W_fs_hook("chown"); return r_; }
int __real_munmap(void *a, size_t l);
int __wrap_munmap(void *a, size_t l);
int __wrap_munmap(void *a, size_t l) { w_call("munmap"); return __real_munmap(a, l); }
int __real_open(const char *p, int fl, ...);
int __wrap_open(const char *p, int fl, ...);
int __wrap_open(const char *p, int fl, ...)
{
	mode_t m = 0; int fd;
	if (fl & O_CREAT) { va_list ap; va_start(ap, fl); m = (mode_t)va_arg(ap, int); va_end(ap); }
	w_call("open");
	fd = __real_open(p, fl, m);
	w_own(fd);
	if (W_fs_hook) W_fs_hook("open");
	return fd;
}

int __wrap_kill(pid_t p, int s);
int __wrap_kill(pid_t p, int s)
{
	if (s == 0 && W_dead_server_pid && p == W_dead_server_pid) { errno = ESRCH; return -1; }
	if (s == 0) return 0;
	return __real_kill(p, s);
}

/* ---- the server: real loop + real service ---- */

static int W_jobadd_fail_once;                 /* the application's job_add handler reports an error the next time it is asked */
static int32_t w_job_add(enum qb_loop_priority p, void *data, qb_loop_job_dispatch_fn fn)
{
	if (W_jobadd_fail_once) { W_jobadd_fail_once = 0; vp_log("  S: job_add handler fails with -ENOMEM"); return -ENOMEM; }
	return qb_loop_job_add(SL, p, data, fn);
}
static int32_t w_dispatch_add(enum qb_loop_priority p, int32_t fd, int32_t evts, void *data, qb_ipcs_dispatch_fn_t fn) { return qb_loop_poll_add(SL, p, fd, evts, data, fn); }
static int32_t w_dispatch_mod(enum qb_loop_priority p, int32_t fd, int32_t evts, void *data, qb_ipcs_dispatch_fn_t fn) { return qb_loop_poll_mod(SL, p, fd, evts, data, fn); }
static int32_t w_dispatch_del(int32_t fd) { return qb_loop_poll_del(SL, fd); }

static void world_start(enum qb_ipc_type type, struct qb_ipcs_service_handlers *h, uint32_t enforce)
{
	struct qb_ipcs_poll_handlers ph = { .job_add = w_job_add, .dispatch_add = w_dispatch_add, .dispatch_mod = w_dispatch_mod, .dispatch_del = w_dispatch_del };
	int32_t r;
	{ static int world_no; snprintf(svc_name, sizeof svc_name, "vp-%d-%d-%d", (int)getpid(), vp_worker_id(), world_no++); }   /* an execution that was cut leaves its service behind */
	SL = qb_loop_create();
	SV = qb_ipcs_create(svc_name, 4242, type, h);
	if (!SV) vp_broken("qb_ipcs_create failed");
	if (enforce) qb_ipcs_enforce_buffer_size(SV, enforce);
	qb_ipcs_poll_handlers_set(SV, &ph);
	r = qb_ipcs_run(SV);
	if (r != 0) vp_broken("qb_ipcs_run failed: %d", r);
}
static void server_main(void *arg) { (void)arg; qb_loop_run(SL); }

static void world_init_sched(void)
{
	vp_sched_reset();
	w_reset();
	vp_stack_size = 1024 * 1024;
	vp_idle_hook = w_idle;
	vp_switch_hook = w_switch;
	vp_set_state_fn(NULL);
	vp_access_filter = NULL;
	vp_sync_points = 0;       /* the server is single threaded: its locks are never contended */
	memset(W_fd_owner, 0, sizeof W_fd_owner);
}

/* list of /dev/shm entries (private mount), one string */
static int shm_files_only;      /* 1: directories themselves are not listed, only what is inside them */
static int shm_cmp(const void *a, const void *b) { return strcmp((const char *)a, (const char *)b); }
static void shm_canon(char *canon)
{
	char *q;
	/* "qb-<pid>-<pid>-<fd>-<6 random characters>" differs from process to process: print a canonical form */
	if (!strncmp(canon, "qb-", 3) && canon[3] >= '0' && canon[3] <= '9') { int dashes = 0; for (q = canon + 3; *q; q++) { if (*q == '-') { dashes++; if (dashes == 3) { int k; for (k = 1; k <= 6 && q[k]; k++) q[k] = 'X'; break; } } else if (*q >= '0' && *q <= '9') *q = '#'; } }
	/* the service name carries the pid of this process */
	while (svc_name[0] && (q = strstr(canon, svc_name))) { size_t l = strlen(svc_name); memmove(q + 3, q + l, strlen(q + l) + 1); memcpy(q, "SVC", 3); }
}
static int shm_listing(char *out, size_t cap)
{
	static char ent[64][300];
	DIR *d = opendir("/dev/shm"); struct dirent *e; size_t l = 0; int n = 0, i;
	out[0] = 0;
	if (!d) return -1;
	while ((e = readdir(d)) && n < 60) {
		char canon[300];
		if (e->d_name[0] == '.') continue;
		snprintf(canon, sizeof canon, "%s", e->d_name);
		shm_canon(canon);
		if (!(shm_files_only && e->d_type == DT_DIR)) { snprintf(ent[n], sizeof ent[n], "%.290s", canon); n++; }
		if (e->d_type == DT_DIR) {
			char p[400]; DIR *d2; struct dirent *e2;
			snprintf(p, sizeof p, "/dev/shm/%s", e->d_name);
			d2 = opendir(p);
			if (d2) {
				while ((e2 = readdir(d2)) && n < 60) if (e2->d_name[0] != '.') {
					char c2[300];
					snprintf(c2, sizeof c2, "%s", e2->d_name); shm_canon(c2);
					snprintf(ent[n], sizeof ent[n], "%.140s/%.140s", canon, c2); n++;
				}
				closedir(d2);
			}
		}
	}
	closedir(d);
	qsort(ent, (size_t)n, sizeof ent[0], shm_cmp);
	for (i = 0; i < n && l + 300 < cap; i++) l += (size_t)snprintf(out + l, cap - l, "%s;", ent[i]);
	return n;
}
/* empty the (private) /dev/shm: leftovers of earlier executions must not be seen by this one */
static void shm_clean(void)
{
	DIR *d = opendir("/dev/shm"); struct dirent *e;
	if (!d) return;
	while ((e = readdir(d))) {
		char p[400];
		if (e->d_name[0] == '.') continue;
		snprintf(p, sizeof p, "/dev/shm/%s", e->d_name);
		if (e->d_type == DT_DIR) {
			DIR *d2 = opendir(p); struct dirent *e2;
			if (d2) { while ((e2 = readdir(d2))) if (e2->d_name[0] != '.') { char q[700]; snprintf(q, sizeof q, "%s/%s", p, e2->d_name); __real_unlink(q); } closedir(d2); }
			__real_rmdir(p);
		} else __real_unlink(p);
	}
	closedir(d);
}
static int open_fd_count(void)
{
	DIR *d = opendir("/proc/self/fd"); struct dirent *e; int n = 0;
	if (!d) return -1;
	while ((e = readdir(d))) if (e->d_name[0] != '.') n++;
	closedir(d);
	return n - 1;
}
