LOOP_WRAP := -Wl,--wrap=clock_gettime -Wl,--wrap=clock_getres -Wl,--wrap=epoll_wait -Wl,--wrap=random -Wl,--wrap=usleep
LDFLAGS_c08_loop_regs := $(LOOP_WRAP)
LDFLAGS_c09_loop_timers := $(LOOP_WRAP)
LDFLAGS_c10_loop_fair := $(LOOP_WRAP)
