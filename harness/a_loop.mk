LOOP_WRAP := -Wl,--wrap=clock_gettime -Wl,--wrap=clock_getres -Wl,--wrap=epoll_wait -Wl,--wrap=random
LDFLAGS_c10_loop_fair := $(LOOP_WRAP)
LDFLAGS_c10_loop_fair := $(LOOP_WRAP)
