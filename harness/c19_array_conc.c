/* C19 (concurrent part): index/grow from several threads; lib/array.c is a TSan-ABI unit, so every
 * access it makes to the array object, the bin table and the lock is a scheduling point. */
#include "vp_sched.h"
#include <qb/qbarray.h>
#include <errno.h>
#include <stdio.h>
#include <string.h>
#include <stdlib.h>

#define ESZ 24
static const int IDXS[] = { 0, 17, 40, 300 };
#define NI 4
static const long GROWS[] = { 64, 1000 };
#define NG 2
#define MAXT 3
#define MAXOPS 4
struct op { int is_grow; long arg; };
static struct op SCR[MAXT][MAXOPS];
static int nthreads, nops, use_key;
static qb_array_t *A;
static struct { int seen, written; char *addr; } E[NI];

static unsigned char pat(int i, int j) { return (unsigned char)(i * 37 + j * 5 + 1); }

static void worker(void *arg)
{
	int t = (int)(intptr_t)arg, o, j, k;
	for (o = 0; o < nops; o++) {
		struct op *op = &SCR[t][o];
		vp_local_reset(1000 * (t + 1) + o);
		if (op->is_grow) {
			int32_t r = qb_array_grow(A, (size_t)op->arg);
			vp_log("T%d: grow(%ld) = %d", t, op->arg, r);
			if (r != 0) vp_fail("grow(%ld) failed: %d", op->arg, r);
		} else {
			int ii = (int)op->arg;
			void *p = NULL;
			int32_t r = qb_array_index(A, IDXS[ii], &p);
			vp_log("T%d: index(%d) = %d", t, IDXS[ii], r);
			if (r != 0) vp_fail("index(%d) failed with auto-grow on: %d", IDXS[ii], r);
			if (E[ii].seen && E[ii].addr != p) vp_fail("index(%d) returned %p, an earlier call returned %p", IDXS[ii], p, (void *)E[ii].addr);
			for (k = 0; k < NI; k++) if (k != ii && E[k].seen) {
				char *q = E[k].addr;
				if ((char *)p < q + ESZ && q < (char *)p + ESZ) vp_fail("storage of elements %d and %d overlaps", IDXS[ii], IDXS[k]);
			}
			E[ii].seen = 1; E[ii].addr = p;
			/* harness-level read/modify/write of the element is one step (the property is about the array, not about element locking) */
			for (j = 0; j < ESZ; j++) {
				unsigned char c = ((unsigned char *)p)[j];
				if (E[ii].written ? c != pat(ii, j) : c != 0)
					vp_fail("element %d %s at byte %d", IDXS[ii], E[ii].written ? "lost its contents" : "is not zero although never written", j);
			}
			for (j = 0; j < ESZ; j++) ((unsigned char *)p)[j] = pat(ii, j);
			E[ii].written = 1;
		}
		vp_local_mix(o);
	}
}

static uint64_t state_key(void)
{
	uint64_t k = vp_heap_hash();
	int i;
	for (i = 0; i < NI; i++) { uint64_t t[3] = { (uint64_t)E[i].seen, (uint64_t)E[i].written, vp_heap_canon((uint64_t)(uintptr_t)E[i].addr) }; k = vp_hash(t, sizeof t, k); }
	k = vp_hash(SCR, sizeof SCR, k);
	return k;
}

static void run(void)
{
	int t, o, i;
	size_t initial = vp_choose(2, "initial size") ? 16 : 0;
	memset(SCR, 0, sizeof SCR); memset(E, 0, sizeof E);
	for (t = 0; t < nthreads; t++) for (o = 0; o < nops; o++) {
		int c = vp_choose(NI + NG, "op");
		/* symmetry: thread scripts in non-decreasing order of their first op */
		if (o == 0 && t > 0) { int prev = SCR[t - 1][0].is_grow ? NI + (SCR[t - 1][0].arg == GROWS[1]) : (int)SCR[t - 1][0].arg; if (c < prev) { vp_pruned(); return; } }
		if (c < NI) { SCR[t][o].is_grow = 0; SCR[t][o].arg = c; }
		else { SCR[t][o].is_grow = 1; SCR[t][o].arg = GROWS[c - NI]; }
	}
	vp_sched_reset();
	vp_heap_reset();
	vp_stack_size = 64 * 1024;
	vp_set_state_fn(use_key ? state_key : NULL);
	vp_value_canon = vp_heap_canon;
	A = qb_array_create_2(initial, ESZ, 16);
	if (!A) vp_fail("create failed");
	for (t = 0; t < nthreads; t++) vp_co_spawn(worker, (void *)(intptr_t)t, t == 0 ? "T0" : t == 1 ? "T1" : "T2");
	if (vp_co_run()) { vp_pruned(); return; }
	/* afterwards everything is still where it was */
	for (i = 0; i < NI; i++) if (E[i].seen) {
		void *p; int j;
		if (qb_array_index(A, IDXS[i], &p) != 0 || p != E[i].addr) vp_fail("final: element %d moved", IDXS[i]);
		for (j = 0; j < ESZ; j++) if (((unsigned char *)p)[j] != pat(i, j)) vp_fail("final: element %d lost its contents", IDXS[i]);
	}
	{ uint64_t h = vp_hash(E, sizeof E, 3); vp_outcome(&h, 8); }
	qb_array_free(A);
}

static void init(void)
{
	nthreads = (int)vp_param("threads", 2, 3);
	nops = (int)vp_param("ops_per_thread", 2, 1);
	if (nops > MAXOPS) vp_broken("ops_per_thread is limited to %d", MAXOPS);
	use_key = (int)vp_param("state_key", 1, 1);
}

int main(int argc, char **argv)
{
	static struct vp_harness h = {
		.property = "C19", .name = "c19_array_conc", .level = "model_checking",
		.run = run, .init = init, .batch = 500, .timeout_s = 60,
		.rule = "2-3 coroutines, each running a script of index/grow calls that force bin allocation and bin-table reallocation, on one real "
			"qb_array with auto-grow; all script combinations (up to thread symmetry); ALL interleavings at the granularity of every memory "
			"access of lib/array.c (TSan-ABI callbacks), allocator calls and lock operations, merged on an exact key (contents of every heap "
			"block of the unit + per-thread read history + oracle state); oracle: address stability across threads, disjointness, zero "
			"initialisation, persistence, and no access to freed memory (ASan shadow consulted on every instrumented access)",
		.assumptions = { "sequentially consistent scheduler", "the harness's own read/modify/write of an element is atomic", "64-bit state fingerprints", NULL },
	};
	return vp_main(argc, argv, &h);
}
