/* C03: death of the peer at any point is detected and fully cleaned up (crash-point enumeration) */
#include "ipc_world.h"

static int transport, script, victim_is_server, kmax, jmax;
static int in_disconnect, died_during_disconnect;   /* the server died while the client was already inside qb_ipcc_disconnect: the statement
                                                        speaks of a server that is dead when disconnect is called; what a server that was alive
                                                        at the call's liveness test leaves behind is nobody's to remove -- not judged */
static int eintr;
static long J;          /* mode 3: the client dies just before the server's J-th wrapped call after the session began */
static long K;
enum { ST_NONE, ST_ACCEPTED, ST_CREATED, ST_CLOSED, ST_DESTROYED };
#define MAXCONN 6
static struct { qb_ipcs_connection_t *c; int st, destroyed, closed, created, after_destroy, is_victim; } CN[MAXCONN];
static int closed_axis;
static int ncn;
static qb_ipcc_connection_t *CTRL, *VIC;
static int victim_co, ctrl_co, victim_started, victim_finished, want_events, want_fc;
static unsigned char vb[2048], cb[2048], sbuf[2048];
static int silent_server;
static int raw_bytes;             /* S5: bytes of the handshake delivered by the raw client */

static int cn_find(qb_ipcs_connection_t *c) { int i; for (i = ncn - 1; i >= 0; i--) if (CN[i].c == c) return i; return -1; }

static int32_t s_accept(qb_ipcs_connection_t *c, uid_t u, gid_t g)
{
	(void)u; (void)g;
	if (ncn >= MAXCONN) vp_broken("too many connections");
	memset(&CN[ncn], 0, sizeof CN[ncn]);
	CN[ncn].c = c; CN[ncn].st = ST_ACCEPTED; CN[ncn].is_victim = victim_started && !victim_is_server;
	ncn++;
	return 0;
}
static void s_created(qb_ipcs_connection_t *c)
{
	int i = cn_find(c);
	if (i < 0 || CN[i].st != ST_ACCEPTED) vp_fail("created callback out of order");
	CN[i].st = ST_CREATED; CN[i].created = 1;
	vp_log("  S: created(conn %d%s)", i, CN[i].is_victim ? ", victim" : "");
}
static int32_t s_msg(qb_ipcs_connection_t *c, void *data, size_t size)
{
	int i = cn_find(c);
	struct qb_ipc_response_header h;
	if (i < 0 || CN[i].st != ST_CREATED) vp_fail("message callback for a connection in state %d", i < 0 ? -1 : CN[i].st);
	if (silent_server) { vp_log("  S: request received, no answer"); return 0; }    /* the client keeps waiting; then the server dies */
	memcpy(sbuf, data, size < sizeof sbuf ? size : sizeof sbuf);
	memset(&h, 0, sizeof h); h.id = 9; h.size = (int32_t)(size < 24 ? 24 : size); memcpy(sbuf, &h, sizeof h);
	(void)qb_ipcs_response_send(c, sbuf, (size_t)h.size);
	return 0;
}
static int32_t s_closed(qb_ipcs_connection_t *c)
{
	int i = cn_find(c);
	if (i < 0 || CN[i].st == ST_DESTROYED) vp_fail("closed callback for a destroyed/unknown connection");
	if (!CN[i].created) vp_fail("closed callback although created was never reported for this connection");
	CN[i].st = ST_CLOSED; CN[i].closed++;
	/* the documented "call me again": the first call returns non-zero; the library asks the application's job_add
	   handler to schedule the second call, and that handler may fail -- the connection has to go away all the same */
	if (closed_axis && CN[i].closed == 1) {
		if (closed_axis == 2) W_jobadd_fail_once = 1;
		vp_log("  S: closed(conn %d) returns 1 (call me again)", i);
		return 1;
	}
	vp_log("  S: closed(conn %d)", i);
	return 0;
}
static void s_destroyed(qb_ipcs_connection_t *c)
{
	int i = cn_find(c);
	if (i < 0) vp_fail("destroyed callback for an unknown connection");
	if (CN[i].st == ST_DESTROYED) vp_fail("destroyed callback ran twice for one connection");
	if (CN[i].created && !CN[i].closed) vp_fail("destroyed without closed although created had been reported");
	CN[i].st = ST_DESTROYED; CN[i].destroyed++;
	vp_log("  S: destroyed(conn %d)", i);
}

static void server_turn(void)
{
	int i;
	if (want_fc == 3) { qb_ipcs_request_rate_limit(SV, QB_IPCS_RATE_NORMAL); want_fc = 0; vp_log("  S: rate limit NORMAL"); }
	for (i = 0; i < ncn; i++) {
		if (!CN[i].is_victim || CN[i].st != ST_CREATED) continue;
		if (want_fc == 1) { qb_ipcs_request_rate_limit(SV, QB_IPCS_RATE_OFF); want_fc = 2; vp_log("  S: rate limit OFF (requests stay queued)"); }
		if (want_events > 0) {
			struct qb_ipc_response_header h;
			memset(sbuf, 0, 64); h.id = 11; h.size = 64; h.error = 0; memcpy(sbuf, &h, sizeof h);
			if (qb_ipcs_event_send(CN[i].c, sbuf, 64) == 64) { want_events--; vp_log("  S: event queued for the victim"); }
		}
	}
}

static void mk_req(unsigned char *b, int id, int len) { struct qb_ipc_request_header h; memset(b, 0, (size_t)len); h.id = id; h.size = len; memcpy(b, &h, sizeof h); }

/* the session scripts of the party under test (client side) */
static int session_connected;
static void session(qb_ipcc_connection_t **cp, unsigned char *buf, int s)
{
	struct iovec iov;
	ssize_t r;
	session_connected = 0;
	*cp = qb_ipcc_connect(svc_name, 12400);
	vp_log("  V: connect = %s", *cp ? "ok" : strerror(errno));
	if (!*cp) return;
	session_connected = 1;
	if (s == 1 || s == 2) {
		int i;
		for (i = 0; i < 2; i++) {
			mk_req(buf, 20 + i, 100);
			iov.iov_base = buf; iov.iov_len = 100;
			r = qb_ipcc_sendv_recv(*cp, &iov, 1, buf, 2048, 1000);
			vp_log("  V: sendv_recv = %zd", r);
		}
	}
	if (s == 2) {
		/* requests stay queued: the server stops reading */
		int i;
		struct timespec ts = { 0, 5000000 };
		want_fc = 1;
		nanosleep(&ts, NULL);
		for (i = 0; i < 2; i++) { mk_req(buf, 30 + i, 200); r = qb_ipcc_send(*cp, buf, 200); vp_log("  V: send = %zd", r); }
	}
	if (s == 3) {
		struct timespec ts = { 0, 5000000 };
		want_events = 2;
		nanosleep(&ts, NULL); nanosleep(&ts, NULL);
		r = qb_ipcc_event_recv(*cp, buf, 2048, 100);
		vp_log("  V: event_recv = %zd", r);
	}
	in_disconnect = 1;
	qb_ipcc_disconnect(*cp);
	in_disconnect = 0;
	vp_log("  V: disconnect");
	*cp = NULL;
}

static void raw_session(void)
{
	/* S5: a raw client that delivers only the first raw_bytes bytes of a valid handshake and then dies */
	struct { struct qb_ipc_request_header hdr; uint32_t max_msg_size; uint32_t pad; } req;
	struct sockaddr_un a;
	int fd = socket(PF_UNIX, SOCK_STREAM, 0), on = 1;
	struct timespec ts = { 0, 5000000 };
	memset(&a, 0, sizeof a); a.sun_family = AF_UNIX;
	snprintf(a.sun_path + 1, sizeof a.sun_path - 1, "%s", svc_name);
	if (connect(fd, (struct sockaddr *)&a, (socklen_t)sizeof a) != 0) vp_broken("raw connect: %s", strerror(errno));
	setsockopt(fd, SOL_SOCKET, SO_PASSCRED, &on, sizeof on);
	memset(&req, 0, sizeof req); req.hdr.id = QB_IPC_MSG_AUTHENTICATE; req.hdr.size = sizeof req; req.max_msg_size = 12400;
	if (raw_bytes > 0) send(fd, &req, (size_t)raw_bytes, MSG_NOSIGNAL);
	vp_log("  V(raw): delivered %d of %zu handshake bytes, then dies", raw_bytes, sizeof req);
	nanosleep(&ts, NULL);
	w_close_fds_of(vp_co_self());
}

static int go_pred(void *p) { (void)p; return victim_started; }
static int fin_pred(void *p) { (void)p; return victim_finished || W_dead[victim_co]; }

static void victim_main(void *arg)
{
	(void)arg;
	vp_block(go_pred, NULL, "start signal");
	if (script == 4) raw_session(); else session(&VIC, vb, script);
	victim_finished = 1;
}
static void on_death(int co)
{
	w_close_fds_of(co);
	if (co == W_server_co && in_disconnect) died_during_disconnect = 1;
	if (co == W_server_co) W_dead_server_pid = (int)getpid();
}

static void director_main(void *arg)
{
	char base_shm[8192], now_shm[8192];
	int base_fds, i;
	struct timespec ts = { 0, 100000000 };
	struct qb_ipcs_stats st0, st1;
	(void)arg;
	if (!victim_is_server) {
		struct iovec iov;
		ssize_t r;
		CTRL = qb_ipcc_connect(svc_name, 12400);
		if (!CTRL) vp_fail("control client cannot connect: %s", strerror(errno));
		nanosleep(&ts, NULL);
		shm_listing(base_shm, sizeof base_shm); base_fds = open_fd_count();
		qb_ipcs_stats_get(SV, &st0, QB_FALSE);
		if (J) w_hit_arm(victim_co, W_server_co, J); else W_kill_at[victim_co] = K;
		victim_started = 1;
		vp_block(fin_pred, NULL, "victim to finish or die");
		if (J && !W_dead[victim_co]) { W_hit_done = 1; vp_pruned(); vp_count(3, (uint64_t)(W_calls[W_server_co] - W_hit_base)); }   /* the session ended before the server's J-th call */
		else if (!J && !W_dead[victim_co] && K > W_calls[victim_co]) { vp_pruned(); vp_count(1, (uint64_t)W_calls[victim_co]); }    /* K beyond the last call: the complete run */
		else vp_count(2, 1);
		/* quiescence: a few virtual seconds (the application switches its rate limiting off again) */
		if (want_fc) { want_fc = 0; qb_ipcs_request_rate_limit(SV, QB_IPCS_RATE_NORMAL); vp_log("  S: rate limit NORMAL"); }   /* the server is idle in epoll_wait: no interleaving issue */
		for (i = 0; i < 30; i++) nanosleep(&ts, NULL);
		/* 1. callbacks of the dead client's connection */
		for (i = 0; i < ncn; i++) if (CN[i].is_victim) {
			if (CN[i].st != ST_DESTROYED) vp_fail("the client died (%s #%ld) but its connection was never destroyed (state %d, created=%d closed=%d)", J ? "just before the server's wrapped call" : "before its wrapped call", J ? J : K, CN[i].st, CN[i].created, CN[i].closed);
			if (CN[i].destroyed != 1) vp_fail("destroyed ran %d times", CN[i].destroyed);
		}
		/* 2. the server keeps serving its other client */
		mk_req(cb, 77, 300); iov.iov_base = cb; iov.iov_len = 300;
		r = qb_ipcc_sendv_recv(CTRL, &iov, 1, cb, sizeof cb, 2000);
		if (r != 300) vp_fail("after the death of another client the control client's request/response round trip returned %zd", r);
		/* 3. everything created for the dead client is released */
		shm_listing(now_shm, sizeof now_shm);
		if (strcmp(base_shm, now_shm)) vp_fail("shared-memory entries left behind for the dead client: before '%s' now '%s'", base_shm, now_shm);
		if (open_fd_count() != base_fds) vp_fail("descriptor count is %d, it was %d before the dead client connected", open_fd_count(), base_fds);
		qb_ipcs_stats_get(SV, &st1, QB_FALSE);
		if (st1.active_connections != st0.active_connections) vp_fail("active connection count %u, was %u before the dead client connected", st1.active_connections, st0.active_connections);
		qb_ipcc_disconnect(CTRL); CTRL = NULL;
		nanosleep(&ts, NULL);
		W_stop_server = 1;
	} else {
		/* the server dies before its K-th wrapped call; this coroutine is the client under test */
		struct iovec iov;
		ssize_t r;
		uint64_t t0;
		shm_listing(base_shm, sizeof base_shm);
		W_on_death = on_death;
		if (J) w_hit_arm(W_server_co, vp_co_self(), J); else W_kill_at[W_server_co] = K;
		session(&VIC, vb, script);
		W_hit_done = 1;
		if (!W_dead[W_server_co]) {
			/* the whole session ran: K is beyond the calls the server makes for it */
			vp_pruned(); vp_count(1, (uint64_t)W_calls[W_server_co]);
			W_stop_server = 1;
			return;
		}
		vp_count(2, 1);
		if (!VIC) {
			/* died during the session: whatever call was in progress has returned (we are here); connect again must fail, not hang */
			t0 = W_now;
			VIC = qb_ipcc_connect(svc_name, 12400);
			if (VIC) vp_fail("connect to a dead server succeeded");
			if (W_now - t0 > 10ULL * 1000000000ULL) vp_fail("connect to a dead server took %llu ms", (unsigned long long)((W_now - t0) / 1000000));
		} else {
			vp_fail("internal: session ended with a live connection");
		}
		shm_files_only = 1;     /* the statement promises the files; the (empty) directory of a dead server is not a file */
		shm_listing(now_shm, sizeof now_shm);
		shm_files_only = 0;
		/* files of a connection the client had established must be gone after its disconnect; what a server that died
		   in the middle of the handshake left behind belongs to nobody (the client never got a connection to disconnect) */
		if (session_connected && !died_during_disconnect && strcmp(base_shm, now_shm)) vp_fail("after the server died and the client disconnected, shared-memory entries remain: '%s' (before: '%s')", now_shm, base_shm);
		(void)iov; (void)r;
	}
}

/* server-death checks that need a live connection at the moment of death are done by a dedicated script */
static void director_sd_main(void *arg)
{
	char base_shm[8192], now_shm[8192];
	struct iovec iov;
	ssize_t r;
	uint64_t t0;
	int phase = script;            /* which blocking call is in progress / next when the server dies */
	(void)arg;
	shm_listing(base_shm, sizeof base_shm);
	W_on_death = on_death;
	VIC = qb_ipcc_connect(svc_name, 12400);
	if (!VIC) vp_fail("connect failed: %s", strerror(errno));
	/* the server dies at an iteration boundary from now on (K counts its wrapped calls after the connect) */
	W_kill_at[W_server_co] = W_calls[W_server_co] + K;
	mk_req(vb, 40, 100); iov.iov_base = vb; iov.iov_len = 100;
	W_eintr_budget = eintr;
	t0 = W_now;
	if (phase == 0) {
		r = qb_ipcc_sendv_recv(VIC, &iov, 1, vb, sizeof vb, -1);
		vp_log("  V: sendv_recv(-1) = %zd after %llu ms", r, (unsigned long long)((W_now - t0) / 1000000));
		if (W_dead[W_server_co] && r >= 0 && r != 100) vp_fail("sendv_recv returned %zd", r);
	} else if (phase == 1) {
		r = qb_ipcc_event_recv(VIC, vb, sizeof vb, -1);
		vp_log("  V: event_recv(-1) = %zd after %llu ms", r, (unsigned long long)((W_now - t0) / 1000000));
	} else {
		r = qb_ipcc_recv(VIC, vb, sizeof vb, 500);
		vp_log("  V: recv(500 ms) = %zd after %llu ms", r, (unsigned long long)((W_now - t0) / 1000000));
		if (W_now - t0 > 520ULL * 1000000ULL) vp_fail("recv with a 500 ms timeout returned after %llu ms", (unsigned long long)((W_now - t0) / 1000000));
	}
	if (!W_dead[W_server_co]) {
		if (phase == 1) vp_fail("event_recv(-1) returned %zd although the server is alive and sent nothing", r);
		vp_pruned(); vp_count(1, (uint64_t)W_calls[W_server_co]);
		qb_ipcc_disconnect(VIC); W_stop_server = 1;
		return;
	}
	vp_count(2, 1);
	if (W_now - t0 > (2 * 2000 + 1000) * 1000000ULL) vp_fail("the call returned %llu ms after it was issued although the server died: not bounded", (unsigned long long)((W_now - t0) / 1000000));
	/* wait-for-ever calls must now report the disconnect within a bounded time, later calls fail at once */
	t0 = W_now;
	r = qb_ipcc_sendv_recv(VIC, &iov, 1, vb, sizeof vb, -1);
	vp_log("  V: sendv_recv(-1) on the dead server = %zd after %llu ms", r, (unsigned long long)((W_now - t0) / 1000000));
	if (r >= 0) vp_fail("sendv_recv to a dead server returned %zd", r);
	if (W_now - t0 > (2 * 2000 + 1000) * 1000000ULL) vp_fail("sendv_recv(-1) to a dead server took %llu ms", (unsigned long long)((W_now - t0) / 1000000));
	t0 = W_now;
	r = qb_ipcc_event_recv(VIC, vb, sizeof vb, -1);
	vp_log("  V: event_recv(-1) on the dead server = %zd after %llu ms", r, (unsigned long long)((W_now - t0) / 1000000));
	if (r >= 0) vp_fail("event_recv from a dead server returned %zd", r);
	if (W_now - t0 > (2 * 2000 + 1000) * 1000000ULL) vp_fail("event_recv(-1) from a dead server took %llu ms", (unsigned long long)((W_now - t0) / 1000000));
	t0 = W_now;
	r = qb_ipcc_send(VIC, vb, 100);
	if (r >= 0) vp_fail("send to a dead server returned %zd", r);
	r = qb_ipcc_recv(VIC, vb, sizeof vb, 0);
	if (r >= 0) vp_fail("recv from a dead server returned %zd", r);
	if (W_now - t0 > 100ULL * 1000000ULL) vp_fail("calls on a connection known to be dead took %llu ms", (unsigned long long)((W_now - t0) / 1000000));
	qb_ipcc_disconnect(VIC); VIC = NULL;
	shm_files_only = 1;
	shm_listing(now_shm, sizeof now_shm);
	shm_files_only = 0;
	if (strcmp(base_shm, now_shm)) vp_fail("the client's disconnect left shared-memory entries of the dead server behind: '%s'", now_shm);
}

static void run(void)
{
	struct qb_ipcs_service_handlers h = { .connection_accept = s_accept, .connection_created = s_created, .msg_process = s_msg,
					      .connection_closed = s_closed, .connection_destroyed = s_destroyed };
	int mode;
	world_init_sched();
	vp_blocked_switch_cost = 1; vp_free_yield_cost = 1;      /* one canonical schedule per crash point; deviations only within the bound */
	shm_clean();
	in_disconnect = died_during_disconnect = 0;
	ncn = 0; CTRL = VIC = NULL; victim_started = victim_finished = 0; want_events = want_fc = 0;
	transport = vp_choose(2, "transport");
	mode = vp_choose(5, "who dies");       /* 0 client, 1 server during a session, 2 server while a call is waiting, 3 client at a moment of the server's execution, 4 server at a moment of the client's */
	victim_is_server = mode == 1 || mode == 2 || mode == 4;
	silent_server = mode == 2;
	J = 0; eintr = 0;
	closed_axis = 0; W_jobadd_fail_once = 0;
	if (mode == 0) closed_axis = vp_choose(3, "closed callback: returns 0 / asks for a second call / asks and job_add fails");
	if (mode == 0) { script = vp_choose(5, "session script"); if (script == 4) { raw_bytes = vp_choose(17 + 1, "handshake bytes delivered"); K = 1000; } else K = 1 + vp_choose(kmax, "dies before wrapped call"); }
	else if (mode == 1) { script = vp_choose(4, "session script"); K = 1 + vp_choose(kmax, "server dies before wrapped call"); }
	else if (mode == 3) { script = vp_choose(4, "session script"); K = 0; J = 1 + vp_choose(jmax, "client dies just before the server's wrapped call"); }
	else if (mode == 4) { script = vp_choose(4, "session script"); K = 0; J = 1 + vp_choose(kmax, "server dies just before the client's wrapped call"); }
	else { script = vp_choose(3, "call in progress"); K = 1 + vp_choose(40, "server dies before wrapped call (after connect)"); eintr = vp_choose(2, "a handled signal interrupts the waiting call once"); }
	vp_log("transport %s, %s dies, script %d, K=%ld J=%ld", transport ? "socket" : "shm", victim_is_server ? "server" : "client", script, K, J);
	world_start(transport ? QB_IPC_SOCKET : QB_IPC_SHM, &h, 0);
	W_server_turn = server_turn;
	W_on_death = on_death;
	W_server_co = vp_co_spawn(server_main, NULL, "server");
	w_adopt_main_fds(W_server_co);        /* the service was set up in the main context: those descriptors are the server's */
	if (mode == 0 || mode == 3) { victim_co = vp_co_spawn(victim_main, NULL, "victim"); ctrl_co = vp_co_spawn(director_main, NULL, "control"); }
	else if (mode == 1 || mode == 4) ctrl_co = vp_co_spawn(director_main, NULL, "client");
	else ctrl_co = vp_co_spawn(director_sd_main, NULL, "client");
	if (vp_co_run()) { vp_pruned(); return; }
	vp_outcome_u64((uint64_t)mode * 100000 + (uint64_t)script * 10000 + (uint64_t)ncn);
	vp_state((uint64_t)mode * 1000003 + (uint64_t)script * 10007 + (uint64_t)K * 13 + (uint64_t)J * 7919 + (uint64_t)transport);
}

static void init(void)
{
	kmax = (int)vp_param("max_crash_point", 260, 260);
	jmax = (int)vp_param("max_server_call", 400, 400);
	vp_count_name(3, "server_calls_during_complete_sessions_sum");
	vp_count_name(1, "calls_of_dying_party_in_complete_runs_sum");
	vp_count_name(2, "executions_in_which_the_party_died");
}

int main(int argc, char **argv)
{
	static struct vp_harness h = {
		.property = "C03", .name = "c03_ipc_death", .level = "fault_enumeration",
		.run = run, .init = init, .batch = 1, .private_shm = 1, .timeout_s = 60,
		.rule = "crash-point enumeration on both transports: (a) a client running one of the sessions S0 connect/disconnect, S1 two request/response "
			"round trips, S2 two more requests left queued behind flow control, S3 two queued events, dies before its K-th wrapped system/libc "
			"call for every K, or (S4) delivers only the first j bytes of the handshake (every j) and dies, while a control client stays "
			"connected; (b) the server dies before its K-th wrapped call during each session; (c) the server dies K calls after the connect while "
			"sendv_recv(-1), event_recv(-1) or recv(500 ms) is in progress; (d) the client dies, wherever it is (also blocked inside a call), just "
			"before the J-th wrapped call the SERVER makes after the session began, for every J (a kill between any two system calls of the "
			"server, e.g. between reading the handshake and answering it); (e) the server dies, wherever it is, just before the client's J-th wrapped "
			"call of the session.  Oracle: destroyed exactly once (closed first iff created), control "
			"client round trip, /dev/shm listing, descriptor count and active-connection statistic back to the baseline; bounded return of "
			"waiting calls on the virtual clock, immediate failure afterwards, no shared-memory entries after the client's disconnect; "
			"distinct = (mode, script, connections)",
		.assumptions = { "death = the coroutine is never resumed and exactly its descriptors are closed; mappings vanish silently, files stay",
				 "wrapped calls: socket, connect, bind, accept, send/recv(msg), writev, poll, epoll_wait, sem_timedwait, nanosleep, open, "
				 "close is a pass-through, unlink, rmdir, mkdtemp, ftruncate, chmod, chown, munmap, shutdown", NULL },
	};
	return vp_main(argc, argv, &h);
}
