/* Shared ring-buffer driver for C07/C11: real rings created through qb_rb_open, their header and
 * data mappings learnt from the wrapped mmap (no private struct access), snapshot/restore by memcpy. */
#include "vp.h"
#include <qb/qbrb.h>
#include <qb/qbdefs.h>
#include <errno.h>
#include <stdio.h>
#include <string.h>
#include <stdlib.h>
#include <unistd.h>
#include <sys/mman.h>

#define MAGIC_LIVE  0xA1A1A1A1u
#define MAGIC_DEAD  0xD0D0D0D0u
#define MAGIC_ALLOC 0xA110CED0u

struct ring {
	qb_ringbuffer_t *rb;
	size_t S; uint32_t flags;
	char *hdr; size_t hdr_len;
	char *data; size_t data_len;
	char *img_hdr, *img_data;       /* pristine (just created) */
	char *pos_hdr, *pos_data;       /* positioned snapshot cache */
	long pos_key;
	char *tmp_hdr, *tmp_data;       /* scratch snapshot for "changes nothing" checks */
	uint32_t W;                     /* words in the data mapping */
};

static int mm_recording;
static struct { void *addr; size_t len; int fixed; } mm_rec[8];
static int mm_n;

void *__real_mmap(void *addr, size_t len, int prot, int flags, int fd, off_t off);
void *__wrap_mmap(void *addr, size_t len, int prot, int flags, int fd, off_t off);
void *__wrap_mmap(void *addr, size_t len, int prot, int flags, int fd, off_t off)
{
	void *r = __real_mmap(addr, len, prot, flags, fd, off);
	if (mm_recording && fd >= 0 && (flags & MAP_SHARED) && r != MAP_FAILED && mm_n < 8) {
		mm_rec[mm_n].addr = r; mm_rec[mm_n].len = len; mm_rec[mm_n].fixed = !!(flags & MAP_FIXED); mm_n++;
	}
	return r;
}

#define MAXRINGS 32
static struct ring rings[MAXRINGS];
static int nrings;

static struct ring *ring_get(size_t S, uint32_t flags)
{
	int i;
	struct ring *r;
	char name[64], path[128];
	for (i = 0; i < nrings; i++) if (rings[i].S == S && rings[i].flags == flags) return &rings[i];
	if (nrings >= MAXRINGS) vp_broken("too many rings");
	r = &rings[nrings];
	snprintf(name, sizeof name, "vp-%d-%zu-%x", vp_worker_id(), S, flags);
	snprintf(path, sizeof path, "/dev/shm/qb-%s-header", name); unlink(path);
	snprintf(path, sizeof path, "/dev/shm/qb-%s-data", name); unlink(path);
	mm_n = 0; mm_recording = 1;
	r->rb = qb_rb_open(name, S, QB_RB_FLAG_CREATE | flags, 0);
	mm_recording = 0;
	if (!r->rb) vp_broken("qb_rb_open(%zu, %x) failed: %s", S, flags, strerror(errno));
	if (mm_n != 3 || mm_rec[0].fixed || !mm_rec[1].fixed || !mm_rec[2].fixed || mm_rec[1].len != mm_rec[2].len)
		vp_broken("unexpected mapping pattern in qb_rb_open (%d shared mappings)", mm_n);
	r->S = S; r->flags = flags;
	r->hdr = mm_rec[0].addr; r->hdr_len = mm_rec[0].len;
	r->data = mm_rec[1].addr; r->data_len = mm_rec[1].len;
	r->W = (uint32_t)(r->data_len / 4);
	r->img_hdr = malloc(r->hdr_len); r->img_data = malloc(r->data_len);
	r->pos_hdr = malloc(r->hdr_len); r->pos_data = malloc(r->data_len);
	r->tmp_hdr = malloc(r->hdr_len); r->tmp_data = malloc(r->data_len);
	memcpy(r->img_hdr, r->hdr, r->hdr_len); memcpy(r->img_data, r->data, r->data_len);
	r->pos_key = -1;
	nrings++;
	return r;
}
static void ring_restore(struct ring *r, const char *h, const char *d) { memcpy(r->hdr, h, r->hdr_len); memcpy(r->data, d, r->data_len); }
static void ring_save(struct ring *r, char *h, char *d) { memcpy(h, r->hdr, r->hdr_len); memcpy(d, r->data, r->data_len); }
static int ring_same(struct ring *r, const char *h, const char *d) { return !memcmp(r->hdr, h, r->hdr_len) && !memcmp(r->data, d, r->data_len); }
/* exact fingerprint of the ring image relative to the positioned snapshot: only 64-byte blocks that differ are hashed */
static uint64_t ring_delta_hash(struct ring *r)
{
	uint64_t id[3] = { (uint64_t)r->pos_key, r->flags, r->S };
	uint64_t k = vp_hash(id, sizeof id, 99);
	size_t off;
	for (off = 0; off < r->hdr_len; off += 64) {
		size_t n = r->hdr_len - off < 64 ? r->hdr_len - off : 64;
		if (memcmp(r->hdr + off, r->pos_hdr + off, n)) { k = vp_hash(r->hdr + off, n, k ^ off); }
	}
	for (off = 0; off < r->data_len; off += 64)
		if (memcmp(r->data + off, r->pos_data + off, 64)) { k = vp_hash(r->data + off, 64, k ^ (off + 0x100000)); }
	return k;
}
static uint64_t ring_hash(struct ring *r) { return vp_hash(r->data, r->data_len, vp_hash(r->hdr, 64, 1)); }

/* ---- payloads: byte j of chunk with seed s ---- */
enum { PAT_INDEX, PAT_LIVE, PAT_DEAD, PAT_ALLOC, NPAT };
static const char *patn[] = { "idx", "A1A1A1A1", "D0D0D0D0", "A110CED0" };
static inline unsigned char pat_byte(int pat, uint32_t seed, size_t j)
{
	uint32_t w;
	switch (pat) {
	case PAT_LIVE: w = MAGIC_LIVE; break;
	case PAT_DEAD: w = MAGIC_DEAD; break;
	case PAT_ALLOC: w = MAGIC_ALLOC; break;
	default: return (unsigned char)(seed * 131u + j * 7u + (j >> 8) + 1u);
	}
	return (unsigned char)(w >> (8 * (j & 3)));
}
static void pat_fill(unsigned char *b, size_t len, int pat, uint32_t seed) { size_t j; for (j = 0; j < len; j++) b[j] = pat_byte(pat, seed, j); }
static long pat_diff(const unsigned char *b, size_t len, int pat, uint32_t seed) { size_t j; for (j = 0; j < len; j++) if (b[j] != pat_byte(pat, seed, j)) return (long)j; return -1; }

static unsigned char iobuf[1 << 16];

/* Fill every word of the ring with a stale pattern through the public API (a lap of big chunks that
 * are read out again), then advance the empty ring so that the next chunk starts p words further. */
static void ring_advance_words(struct ring *r, uint32_t words, int pat)
{
	while (words > 0) {
		uint32_t step = words, payload_words;
		ssize_t w, rd;
		if (step == 1) vp_broken("cannot advance by one word");
		if (step > r->W / 2) step = r->W / 2;
		if (words - step == 1) step--;              /* never leave a remainder of one word */
		payload_words = step - 2;
		pat_fill(iobuf, payload_words * 4, pat, 0);
		w = qb_rb_chunk_write(r->rb, iobuf, payload_words * 4);
		if (w != (ssize_t)(payload_words * 4)) vp_broken("positioning write of %u words failed: %zd", payload_words, w);
		rd = qb_rb_chunk_read(r->rb, iobuf, sizeof iobuf, 0);
		if (rd != w) vp_broken("positioning read failed: %zd", rd);
		words -= step;
	}
}
static void ring_position(struct ring *r, int stale_pat, uint32_t p)
{
	long key = (long)stale_pat * 1000003 + p;
	if (r->pos_key == key) { ring_restore(r, r->pos_hdr, r->pos_data); return; }
	ring_restore(r, r->img_hdr, r->img_data);
	if (stale_pat >= 0) ring_advance_words(r, r->W, stale_pat);     /* one full lap */
	if (p == 1) ring_advance_words(r, r->W + 1, stale_pat < 0 ? PAT_INDEX : stale_pat);
	else if (p > 0) ring_advance_words(r, p, stale_pat < 0 ? PAT_INDEX : stale_pat);
	ring_save(r, r->pos_hdr, r->pos_data);
	r->pos_key = key;
}
