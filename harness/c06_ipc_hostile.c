/* C06: bytes from a peer never corrupt the other side, whatever they say */
#include "ipc_world.h"
#include "ipc_int.h"          /* only for the raw channels of a *client* connection (hostile-peer inputs) */
#include <limits.h>

static int transport, part;
static qb_ipcc_connection_t *CTRL, *HC;
static qb_ipcs_connection_t *ctrl_conn, *hostile_conn;
static int n_accept, hostile_accepted, hostile_msgs, phase_hostile;
static size_t maxmsg;
static long last_real_len = -1;           /* bytes the hostile client really put on the wire for the message in flight */
static unsigned char hb[40000], cb[2048], sb[2048];

static int32_t s_accept(qb_ipcs_connection_t *c, uid_t u, gid_t g) { (void)u; (void)g; n_accept++; if (phase_hostile) hostile_accepted++; (void)c; return 0; }
static void s_created(qb_ipcs_connection_t *c) { if (phase_hostile) hostile_conn = c; else ctrl_conn = c; }
static int32_t s_closed(qb_ipcs_connection_t *c) { (void)c; return 0; }
static void s_destroyed(qb_ipcs_connection_t *c) { if (c == hostile_conn) hostile_conn = NULL; if (c == ctrl_conn) ctrl_conn = NULL; }
static int32_t s_msg(qb_ipcs_connection_t *c, void *data, size_t size)
{
	if (c == ctrl_conn) {
		struct qb_ipc_response_header h;
		memset(sb, 0, sizeof sb); h.id = 9; h.size = 300; h.error = 0; memcpy(sb, &h, sizeof h);
		(void)qb_ipcs_response_send(c, sb, 300);
		return 0;
	}
	hostile_msgs++;
	vp_log("  S: msg_process(hostile, size %zu) [really sent: %ld bytes; the server negotiated %d]", size, last_real_len, qb_ipcs_connection_get_buffer_size(c));
	if (part == 0) vp_fail("the message callback was invoked (%zu bytes) for a peer that only wrote handshake bytes", size);
	if (last_real_len >= 0 && size > (size_t)last_real_len)
		vp_fail("the message callback was told %zu bytes but the client really sent %ld", size, last_real_len);
	if (size > maxmsg) vp_fail("the message callback was told %zu bytes, the negotiated maximum is %zu", size, maxmsg);
	/* what the server itself answered in the handshake (the client side may believe something else after a doctored handshake) */
	if ((int32_t)size > qb_ipcs_connection_get_buffer_size(c))
		vp_fail("the message callback was told %zu bytes, the maximum the server negotiated for this connection is %d", size, qb_ipcs_connection_get_buffer_size(c));
	/* an application reads what it is told it got: ASan sees any byte outside the connection's buffers */
	{ volatile unsigned char sink = 0; size_t i; for (i = 0; i < size; i++) sink ^= ((unsigned char *)data)[i]; (void)sink; }
	return 0;
}

static void control_round_trip(const char *when)
{
	struct qb_ipc_request_header h;
	struct iovec iov;
	ssize_t r;
	memset(cb, 0, sizeof cb); h.id = 77; h.size = 300; memcpy(cb, &h, sizeof h);
	iov.iov_base = cb; iov.iov_len = 300;
	r = qb_ipcc_sendv_recv(CTRL, &iov, 1, cb, sizeof cb, 3000);
	if (r != 300) vp_fail("%s: the well-behaved client's request/response round trip returned %zd: the server is no longer serving", when, r);
}

static int raw_connect(void)
{
	struct sockaddr_un a;
	int fd = socket(PF_UNIX, SOCK_STREAM, 0), on = 1;
	memset(&a, 0, sizeof a); a.sun_family = AF_UNIX;
	snprintf(a.sun_path + 1, sizeof a.sun_path - 1, "%s", svc_name);
	if (connect(fd, (struct sockaddr *)&a, (socklen_t)sizeof a) != 0) vp_broken("raw connect: %s", strerror(errno));
	setsockopt(fd, SOL_SOCKET, SO_PASSCRED, &on, sizeof on);
	fcntl(fd, F_SETFL, fcntl(fd, F_GETFL) | O_NONBLOCK);
	return fd;
}
static void nap(int ms) { struct timespec ts = { ms / 1000, (long)(ms % 1000) * 1000000 }; nanosleep(&ts, NULL); }

static const int32_t FIELD_VALS[] = { 0, 1, -1, INT_MIN, INT_MAX, 1 << 30 };

static void hostile_handshake(void)
{
	struct { struct qb_ipc_request_header hdr; uint32_t max_msg_size; uint32_t pad; } req;
	unsigned char wire[24 + 64];
	size_t wlen = sizeof req, split;
	int kind = vp_choose(4, "handshake damage"), after, fd, base_fds;
	memset(&req, 0, sizeof req); req.hdr.id = QB_IPC_MSG_AUTHENTICATE; req.hdr.size = sizeof req; req.max_msg_size = 12400;
	memcpy(wire, &req, sizeof req);
	if (kind == 0) { wlen = (size_t)vp_choose((int)sizeof req, "prefix length"); vp_log("  H: only the first %zu bytes of a valid request", wlen); }
	else if (kind == 1) {
		int f = vp_choose(3, "field"), v = vp_choose(6 + 2, "value");
		int32_t truev = f == 0 ? req.hdr.id : f == 1 ? req.hdr.size : (int32_t)req.max_msg_size;
		int32_t val = v < 6 ? FIELD_VALS[v] : v == 6 ? truev + 1 : truev - 1;
		memcpy(wire + (f == 0 ? 0 : f == 1 ? 8 : 16), &val, 4);
		vp_log("  H: field %s := %d", f == 0 ? "id" : f == 1 ? "size" : "max_msg_size", val);
	} else if (kind == 2) {
		static const int extra[] = { 1, 7, 24, 64 };
		int e = extra[vp_choose(4, "trailing garbage")];
		memset(wire + sizeof req, 0xee, (size_t)e); wlen += (size_t)e;
		vp_log("  H: valid request followed by %d bytes of garbage", e);
	} else vp_log("  H: valid request, delivered in two pieces");
	split = kind == 3 ? (size_t)(1 + vp_choose((int)wlen - 1, "split position")) : wlen;
	after = vp_choose(4, "afterwards");        /* 0 close, 1 stay silent, 2 keep writing, 3 stop reading at once (the answer cannot be delivered), close later */
	base_fds = open_fd_count();
	phase_hostile = 1;
	fd = raw_connect();
	if (split) send(fd, wire, split, MSG_NOSIGNAL);
	if (after == 3 && split >= wlen) shutdown(fd, SHUT_RD);
	nap(5);
	if (split < wlen) send(fd, wire + split, wlen - split, MSG_NOSIGNAL);
	if (after == 3 && split < wlen) shutdown(fd, SHUT_RD);
	nap(5);
	if (after == 2) { int i; memset(hb, 0x41, 4096); for (i = 0; i < 6; i++) { send(fd, hb, 4096, MSG_NOSIGNAL); nap(5); }   /* 24 KiB: more than any buffer of the handshake code */ }
	if (after == 1) nap(3000);
	control_round_trip("while the hostile peer is connected");
	close(fd);
	nap(200);
	phase_hostile = 0;
	if (hostile_msgs) vp_fail("the message callback ran for the hostile peer");
	control_round_trip("after the hostile peer went away");
	/* an accepted (valid) handshake leaves a connection that is cleaned up when the socket closes; everything else too */
	if (open_fd_count() != base_fds) vp_fail("descriptor count is %d after the hostile peer went away, it was %d before", open_fd_count(), base_fds);
	vp_outcome_u64((uint64_t)hostile_accepted * 10 + (uint64_t)kind);
}

static void hostile_messages(void)
{
	int32_t svals[12];
	long lvals[9];
	int si, li, ii, nl;
	static const int32_t ids[] = { 0, QB_IPC_MSG_DISCONNECT, -2 };
	struct qb_ipc_request_header h;
	long L; int32_t S;
	phase_hostile = 1;
	{
		/* the maximum message size a connection is set up for comes from the peer too */
		static const int mm[] = { -1, 1, 15, 17, 100 };
		int c = vp_choose(5, "max_msg_size announced in the handshake");
		W_patch_maxmsg = mm[c];
		if (c) vp_log("  H: handshake announces max_msg_size %d", mm[c]);
	}
	HC = qb_ipcc_connect(svc_name, 12400);
	W_patch_maxmsg = -1;
	phase_hostile = 0;
	if (!HC) vp_fail("the (later hostile) client could not connect: %s", strerror(errno));
	maxmsg = (size_t)qb_ipcc_get_buffer_size(HC);
	lvals[0] = 0; lvals[1] = 1; lvals[2] = 15; lvals[3] = 16; lvals[4] = 17; lvals[5] = 1000; lvals[6] = (long)maxmsg; lvals[7] = (long)maxmsg + 1; lvals[8] = 2 * (long)maxmsg;
	nl = 9;      /* on shared memory the ring is rounded up to whole pages: it takes chunks beyond the negotiated maximum */
	li = vp_choose(nl, "real length"); L = lvals[li];
	svals[0] = INT_MIN; svals[1] = -1; svals[2] = 0; svals[3] = 1; svals[4] = 15; svals[5] = 16; svals[6] = (int32_t)L - 1; svals[7] = (int32_t)L; svals[8] = (int32_t)L + 1;
	svals[9] = (int32_t)maxmsg; svals[10] = (int32_t)maxmsg + 1; svals[11] = INT_MAX;
	si = vp_choose(12, "announced size"); S = svals[si];
	ii = vp_choose(3, "message id");
	memset(hb, 0x5c, sizeof hb);
	h.id = ids[ii]; h.size = S;
	if (L >= (long)sizeof h) memcpy(hb, &h, sizeof h); else memcpy(hb, &h, (size_t)L);
	vp_log("  H: message of %ld real bytes announcing size %d, id %d", L, S, h.id);
	last_real_len = L;
	if (transport == 0) {
		/* shared memory: a chunk on the request ring + the notification byte */
		ssize_t w = qb_rb_chunk_write(HC->request.u.shm.rb, hb, (size_t)L);
		char one = 1;
		if (w != L) { vp_log("  H: ring refused the chunk (%zd)", w); }
		else send(HC->setup.u.us.sock, &one, 1, MSG_NOSIGNAL);
	} else {
		ssize_t w = send(HC->request.u.us.sock, hb, (size_t)L, MSG_NOSIGNAL);
		vp_log("  H: datagram send = %zd", w);
		if (w != L) last_real_len = -1;
	}
	nap(50);
	control_round_trip("after the hostile message");
	last_real_len = -1;
	qb_ipcc_disconnect(HC); HC = NULL;
	nap(100);
	control_round_trip("after the hostile client disconnected");
	vp_outcome_u64((uint64_t)hostile_msgs * 100 + (uint64_t)si);
}

static void client_main(void *arg)
{
	(void)arg;
	CTRL = qb_ipcc_connect(svc_name, 12400);
	if (!CTRL) vp_fail("control client cannot connect");
	nap(20);
	if (part == 0) hostile_handshake(); else hostile_messages();
	qb_ipcc_disconnect(CTRL); CTRL = NULL;
	nap(50);
	W_stop_server = 1;
}

static void run(void)
{
	struct qb_ipcs_service_handlers h = { .connection_accept = s_accept, .connection_created = s_created, .msg_process = s_msg,
					      .connection_closed = s_closed, .connection_destroyed = s_destroyed };
	world_init_sched();
	vp_blocked_switch_cost = 1; vp_free_yield_cost = 1;
	shm_clean();
	n_accept = hostile_accepted = hostile_msgs = phase_hostile = 0; ctrl_conn = hostile_conn = NULL; CTRL = HC = NULL; last_real_len = -1;
	transport = vp_choose(2, "transport");
	part = vp_choose(2, "handshake bytes / messages of an accepted client");
	vp_log("transport %s, %s", transport ? "socket" : "shm", part ? "hostile messages" : "hostile handshake");
	world_start(transport ? QB_IPC_SOCKET : QB_IPC_SHM, &h, 0);
	W_server_co = vp_co_spawn(server_main, NULL, "server");
	w_adopt_main_fds(W_server_co);
	vp_co_spawn(client_main, NULL, "clients");
	if (vp_co_run()) { vp_pruned(); return; }
	vp_state((uint64_t)vp_depth() * 1000003 + (uint64_t)hostile_msgs);
	qb_ipcs_destroy(SV);
	qb_loop_destroy(SL);
}

int main(int argc, char **argv)
{
	static struct vp_harness h = {
		.property = "C06", .name = "c06_ipc_hostile", .level = "exploration",
		.run = run, .batch = 1, .private_shm = 1, .timeout_s = 60,
		.rule = "bounded-exhaustive input enumeration against a live server (both transports) with a well-behaved control client connected: "
			"handshake = every prefix of a valid request, each field (id, size, max_msg_size) x {0,1,-1,INT_MIN,INT_MAX,2^30,valid+1,valid-1}, "
			"1/7/24/64 bytes of trailing garbage, delivery split at every byte with loop iterations in between, each followed by close / "
			"silence / more writing; messages of an accepted client written through the raw channels (ring chunk + notification byte, or "
			"datagram): real length in {0,1,15,16,17,1000,max,max+1,2*max} x announced size in {INT_MIN,-1,0,1,15,16,real-1,real,real+1,max,"
			"max+1,INT_MAX} x id in {0, DISCONNECT, -2}; oracle: server keeps serving the control client, message callback never for an "
			"unaccepted peer, size told to the callback <= bytes really sent and <= negotiated maximum (the callback reads exactly that many "
			"bytes under ASan), descriptor count back to the baseline",
		.assumptions = { "one canonical schedule per input", "the raw channels are reached through the client-side struct qb_ipc_one_way", NULL },
	};
	return vp_main(argc, argv, &h);
}
