/* C02: requests, responses and events arrive exactly once, in order, intact */
#include "ipc_world.h"

#define HDR 16
#define MAXMSG_REQ 12400                 /* asked for by the client; libqb raises it to its minimum */
static int transport, cdepth, sactions_max, small_bufs;
static size_t maxmsg;                   /* negotiated */
static qb_ipcc_connection_t *CC;
static qb_ipcs_connection_t *SC;       /* the server side connection object */

struct msg { int seq; size_t len; };
#define QMAX 64
static struct msg RQ[QMAX], RS[QMAX], EV[QMAX];
static int rqh, rqt, rsh, rst, evh, evt, seqctr, client_done, drain_phase, sactions_left, burst_left;
/* a send that is still executing: the peer may legitimately see its message before the call has returned */
struct inflight { int valid, delivered; struct msg m; };
static struct inflight IF_RQ, IF_RS, IF_EV;
static void if_begin(struct inflight *f, int seq, size_t len) { f->valid = 1; f->delivered = 0; f->m.seq = seq; f->m.len = len; }
/* returns 1 if the message has to be put on the FIFO by the caller */
static int if_end(struct inflight *f, ssize_t r, const char *what)
{
	int need = 0;
	if (r == (ssize_t)f->m.len) need = !f->delivered;
	else if (f->delivered) vp_fail("%s of message #%d reported %zd but the message reached the peer: a failed send must have no effect", what, f->m.seq, r);
	f->valid = 0;
	return need;
}
static unsigned char big[20000], rbuf[20000], sbig[20000];   /* client / client / server buffers: the parties interleave */

static void fill(unsigned char *b, size_t len, int seq, int kind)
{
	size_t i;
	struct qb_ipc_request_header h;
	for (i = 0; i < len; i++) b[i] = (unsigned char)(seq * 17 + i * 3 + kind);
	memset(&h, 0, sizeof h);
	h.id = 1000 * kind + seq; h.size = (int32_t)len;      /* every message starts with (id, size); size is what the socket transport reads */
	memcpy(b, &h, sizeof h);
}
static void check_payload(const unsigned char *b, size_t len, const struct msg *m, int kind, const char *what)
{
	static unsigned char ref[20000];
	size_t i;
	if (len != m->len) { int32_t gid = 0, gsz = 0; if (len >= 12) { memcpy(&gid, b, 4); memcpy(&gsz, b + 8, 4); }
		vp_fail("%s: got %zu bytes (header id %d size %d), the oldest undelivered message #%d has %zu", what, len, gid, gsz, m->seq, m->len); }
	fill(ref, m->len, m->seq, kind);
	for (i = 0; i < len; i++) if (b[i] != ref[i]) vp_fail("%s: message #%d (%zu bytes) damaged at byte %zu", what, m->seq, len, i);
}

/* ---- server application ---- */
static int32_t s_accept(qb_ipcs_connection_t *c, uid_t u, gid_t g) { (void)c; (void)u; (void)g; return 0; }
static void s_created(qb_ipcs_connection_t *c) { SC = c; }
static int32_t s_closed(qb_ipcs_connection_t *c) { (void)c; return 0; }
static void s_destroyed(qb_ipcs_connection_t *c) { if (c == SC) SC = NULL; }
static int tail_phase, phaseA_rounds = 12, client_bursting, server_fc_on, burst_stall_pending;
static int32_t s_msg(qb_ipcs_connection_t *c, void *data, size_t size)
{
	int beh;
	if (rqh == rqt) {
		if (!IF_RQ.valid || IF_RQ.delivered) vp_fail("message callback invoked (%zu bytes) but no accepted request is outstanding", size);
		/* the client's send has not returned yet */
		RQ[rqt] = IF_RQ.m; rqt++; IF_RQ.delivered = 1;
	}
	check_payload(data, size, &RQ[rqh], 1, "message callback");
	vp_log("  S: msg_process(request #%d, %zu bytes)", RQ[rqh].seq, size);
	/* the first request of a burst finds the server busy for a while (it does not read its sockets meanwhile): the rest of
	   the burst runs into full buffers with nobody draining them */
	if (burst_stall_pending && size == HDR + 4) { struct timespec ts = { 0, 50000000 }; burst_stall_pending = 0; vp_log("  S: busy for 50 ms"); nanosleep(&ts, NULL); }
	/* burst requests (their own length) are just consumed: a behaviour choice per message would be 3^8 */
	beh = (drain_phase || size == HDR + 4) ? 1 : vp_choose(3, "msg_process behaviour");
	if (beh == 0) {
		/* answer now with an echo of the same length */
		ssize_t r;
		fill(sbig, size, RQ[rqh].seq, 2);
		if_begin(&IF_RS, RQ[rqh].seq, size);
		r = qb_ipcs_response_send(c, sbig, size);
		vp_log("  S: response_send(%zu) = %zd", size, r);
		if (r >= 0 && r != (ssize_t)size) vp_fail("response_send of %zu bytes returned %zd", size, r);
		if (if_end(&IF_RS, r, "response_send")) { RS[rst] = IF_RS.m; rst++; }
		/* the request handed to the callback stays what it was for as long as the callback runs
		   (the client may have been sending meanwhile) */
		check_payload(data, size, &RQ[rqh], 1, "message callback, at its end");
	}
	rqh++;
	return beh == 2 ? -1 : 0;
}

static const size_t ELEN_IDX[] = { 0, 1, 2 };
static size_t elen(int i) { return i == 0 ? HDR : i == 1 ? 1000 : maxmsg; }

static void server_turn(void)
{
	int c;
	if (drain_phase) { if (drain_phase == 1) { qb_ipcs_request_rate_limit(SV, QB_IPCS_RATE_NORMAL); drain_phase = 2; } return; }
	if (!SC || sactions_left <= 0 || !(W_free_choices || tail_phase)) return;
	/* while the client is inside its request burst (possibly retrying on a full socket) the application does not act: switching
	   flow control on under a client that is already retrying makes the client spin until it is switched off again */
	if (client_bursting) return;
	c = vp_choose(1 + 3 + 4 + (W_small_bufs ? 1 : 0), "server action");
	if (c == 0) return;
	sactions_left--;
	if (c <= 3) {
		size_t len = elen(c - 1);
		ssize_t r;
		int seq = ++seqctr;
		fill(sbig, len, seq, 3);
		if_begin(&IF_EV, seq, len);
		r = qb_ipcs_event_send(SC, sbig, len);
		vp_log("  S: event_send(#%d, %zu) = %zd", seq, len, r);
		if (r >= 0 && r != (ssize_t)len) vp_fail("event_send of %zu bytes returned %zd", len, r);
		if (if_end(&IF_EV, r, "event_send")) { EV[evt] = IF_EV.m; evt++; }
	} else if (c <= 7) {
		static const enum qb_ipcs_rate_limit rl[] = { QB_IPCS_RATE_OFF, QB_IPCS_RATE_OFF_2, QB_IPCS_RATE_NORMAL, QB_IPCS_RATE_FAST };
		qb_ipcs_request_rate_limit(SV, rl[c - 4]);
		server_fc_on = c - 4 < 2;
		vp_log("  S: rate_limit(%d)", rl[c - 4]);
	} else {
		/* burst of small events: fills a minimum-size notification socket */
		int k;
		for (k = 0; k < 7; k++) {
			ssize_t r; int seq = ++seqctr;
			fill(sbig, HDR, seq, 3);
			if_begin(&IF_EV, seq, HDR);
			r = qb_ipcs_event_send(SC, sbig, HDR);
			vp_log("  S: burst event_send(#%d) = %zd", seq, r);
			if (if_end(&IF_EV, r, "event_send")) { EV[evt] = IF_EV.m; evt++; }
		}
	}
}

/* ---- client ---- */
static void check_pollin(const char *when)
{
	struct pollfd p; int32_t fd = -1;
	if (qb_ipcc_fd_get(CC, &fd) != 0) vp_fail("fd_get failed");
	p.fd = fd; p.events = POLLIN; p.revents = 0;
	__real_poll(&p, 1, 0);
	if (evh != evt && !(p.revents & POLLIN)) vp_fail("%s: %d event(s) are queued and unread but the client's descriptor is not readable", when, evt - evh);
}

static void c_recv(int is_event)
{
	ssize_t r;
	if (drain_phase && transport == 0) {
		/* a receive into a buffer that is too small for any message reports an error and takes nothing: the receive that
		   follows gets the message (shared-memory transport; the socket transport has no message boundaries to refuse at) */
		ssize_t r0 = is_event ? qb_ipcc_event_recv(CC, rbuf, 8, 0) : qb_ipcc_recv(CC, rbuf, 8, 0);
		vp_log("  C: %s(8-byte buffer, 0 ms) = %zd", is_event ? "event_recv" : "recv", r0);
		if (r0 >= 0) vp_fail("%s into an 8-byte buffer returned %zd", is_event ? "event_recv" : "recv", r0);
	}
	r = is_event ? qb_ipcc_event_recv(CC, rbuf, sizeof rbuf, 0) : qb_ipcc_recv(CC, rbuf, sizeof rbuf, 0);
	vp_log("  C: %s(0 ms) = %zd", is_event ? "event_recv" : "recv", r);
	if (r >= 0) {
		if (is_event && evh == evt && IF_EV.valid && !IF_EV.delivered) { EV[evt] = IF_EV.m; evt++; IF_EV.delivered = 1; }
		if (!is_event && rsh == rst && IF_RS.valid && !IF_RS.delivered) { RS[rst] = IF_RS.m; rst++; IF_RS.delivered = 1; }
		if (is_event) { if (evh == evt) vp_fail("event_recv returned %zd bytes but no event is outstanding", r); check_payload(rbuf, (size_t)r, &EV[evh], 3, "event_recv"); evh++; }
		else { if (rsh == rst) vp_fail("recv returned %zd bytes but no response is outstanding", r); check_payload(rbuf, (size_t)r, &RS[rsh], 2, "recv"); rsh++; }
	}
}

static void client_main(void *arg)
{
	int step;
	(void)arg;
	CC = qb_ipcc_connect(svc_name, MAXMSG_REQ);
	if (!CC) vp_fail("qb_ipcc_connect failed: %s", strerror(errno));
	maxmsg = (size_t)qb_ipcc_get_buffer_size(CC);
	vp_log("  C: connected, negotiated maximum %zu", maxmsg);
	W_free_choices = 1;
	/* the server application may act on its own before the client does anything (its loop is woken once) */
	{ struct timespec ts = { 0, 1000000 }; W_poke_server = 1; nanosleep(&ts, NULL); }
	for (step = 0; step < cdepth; step++) {
		int c;
		vp_yield_free("client op boundary");
		c = vp_choose(5 + 1 + 3 + (W_small_bufs ? 1 : 0), "client op");
		if (c == 9) {
			/* burst of small requests: fills a minimum-size notification socket while the server is not reading */
			int k;
			/* against a server that has switched its request side off the client would (by design) retry until it is switched
			   on again, which nobody does during the burst: not a history that ends */
			if (server_fc_on) { vp_pruned(); vp_co_abort(); }
			int use_send = vp_choose(2, "burst through send / sendv");
			client_bursting = 1; burst_stall_pending = 1;
			/* one canonical schedule inside the burst (the server runs whenever the client has to wait) */
			W_free_choices = 0; vp_blocked_switch_cost = 1;
			for (k = 0; k < 8; k++) {
				struct iovec iov[2]; int seq = ++seqctr; ssize_t r;
				fill(big, HDR + 4, seq, 1);
				iov[0].iov_base = big; iov[0].iov_len = HDR; iov[1].iov_base = big + HDR; iov[1].iov_len = 4;
				if_begin(&IF_RQ, seq, HDR + 4);
				r = use_send ? qb_ipcc_send(CC, big, HDR + 4) : qb_ipcc_sendv(CC, iov, 2);
				vp_log("  C: burst %s(#%d, %zu) = %zd", use_send ? "send" : "sendv", seq, (size_t)HDR + 4, r);
				if (r >= 0 && r != (ssize_t)(HDR + 4)) vp_fail("sendv of %zu bytes returned %zd", (size_t)HDR + 4, r);
				if (if_end(&IF_RQ, r, "sendv")) { RQ[rqt] = IF_RQ.m; rqt++; }
			}
			client_bursting = 0;
			W_free_choices = 1; vp_blocked_switch_cost = 0;
			continue;
		}
		if (c < 6) {
			size_t lens[5] = { HDR, HDR + 1, 1000, maxmsg, maxmsg + 1 };
			size_t len = c < 5 ? lens[c] : 1000;
			int seq = ++seqctr;
			ssize_t r;
			fill(big, len, seq, 1);
			if_begin(&IF_RQ, seq, len);
			if (c < 5) r = qb_ipcc_send(CC, big, len);
			else { struct iovec iov[2] = { { big, HDR }, { big + HDR, len - HDR } }; r = qb_ipcc_sendv(CC, iov, 2); }
			vp_log("  C: %s(#%d, %zu) = %zd", c < 5 ? "send" : "sendv", seq, len, r);
			if (len > maxmsg && r != -EMSGSIZE) vp_fail("send of %zu bytes (maximum %zu) returned %zd, not -EMSGSIZE", len, maxmsg, r);
			if (r >= 0 && r != (ssize_t)len) vp_fail("send of %zu bytes returned %zd", len, r);
			if (if_end(&IF_RQ, r, "send")) { RQ[rqt] = IF_RQ.m; rqt++; }
		} else if (c == 6) c_recv(0);
		else if (c == 7) c_recv(1);
		else { check_pollin("poll"); vp_log("  C: poll"); }
	}
	/* quiescence: let the server finish, then take everything that is still in flight */
	client_done = 1;
	/* the server still gets turns (and its remaining application actions) after the client's last operation;
	   the client is waiting, so there is nothing left to interleave: no scheduling choices any more */
	W_free_choices = 0;
	vp_blocked_switch_cost = 1;      /* from here on one canonical schedule (who runs when somebody blocks), deviations only within the bound */
	tail_phase = 1;
	{ struct timespec ts = { 0, 5000000 }; int i; for (i = 0; i < 2; i++) { W_poke_server = 1; nanosleep(&ts, NULL); } }
	tail_phase = 0;
	/* first the events, with the rate limit left as the application set it: flow control on the request side must not
	   keep queued events (or their wake-ups) from the client */
	{
		int rounds;
		drain_phase = 3;                /* no more choices, no rate-limit reset yet */
		for (rounds = 0; rounds < phaseA_rounds && evh != evt; rounds++) {
			struct timespec ts = { 0, 20000000 + 7777 };    /* never the same instant as one of the server's 1 ms retry waits: simultaneous
									   wake-ups would be explored in both orders, which doubles the work per round */
			nanosleep(&ts, NULL);
			check_pollin("drain of events");
			c_recv(1);
		}
	}
	drain_phase = 1;
	{
		int rounds;
		for (rounds = 0; rounds < 40; rounds++) {
			struct timespec ts = { 0, 20000000 };
			nanosleep(&ts, NULL);
			check_pollin("drain");
			c_recv(0); c_recv(1);
			if (rqh == rqt && rsh == rst && evh == evt) break;
		}
	}
	if (rqh != rqt) vp_fail("%d accepted request(s) were never handed to the message callback (oldest #%d, %zu bytes)", rqt - rqh, RQ[rqh].seq, RQ[rqh].len);
	if (rsh != rst) vp_fail("%d accepted response(s) were never returned by recv (oldest #%d)", rst - rsh, RS[rsh].seq);
	if (evh != evt) vp_fail("%d accepted event(s) were never returned by event_recv (oldest #%d)", evt - evh, EV[evh].seq);
	c_recv(0); c_recv(1);            /* nothing extra */
	qb_ipcc_disconnect(CC);
	CC = NULL;
	{ struct timespec ts = { 0, 50000000 }; nanosleep(&ts, NULL); }
	W_stop_server = 1;
}

static void run(void)
{
	struct qb_ipcs_service_handlers h = { .connection_accept = s_accept, .connection_created = s_created, .msg_process = s_msg,
					      .connection_closed = s_closed, .connection_destroyed = s_destroyed };
	world_init_sched();
	vp_blocked_switch_cost = 0;
	rqh = rqt = rsh = rst = evh = evt = seqctr = client_done = drain_phase = tail_phase = client_bursting = server_fc_on = burst_stall_pending = 0; SC = NULL; CC = NULL;
	memset(&IF_RQ, 0, sizeof IF_RQ); memset(&IF_RS, 0, sizeof IF_RS); memset(&IF_EV, 0, sizeof IF_EV);
	sactions_left = sactions_max;
	transport = vp_choose(2, "transport");
	if (small_bufs) W_small_bufs = vp_env(2, "minimum socket buffers");
	vp_log("transport %s", transport ? "socket" : "shm");
	world_start(transport ? QB_IPC_SOCKET : QB_IPC_SHM, &h, 0);
	W_server_turn = server_turn;
	W_server_co = vp_co_spawn(server_main, NULL, "server");
	w_adopt_main_fds(W_server_co);        /* the service was set up in the main context: those descriptors are the server's */
	vp_co_spawn(client_main, NULL, "client");
	if (vp_co_run()) { vp_pruned(); return; }
	vp_outcome_u64((uint64_t)rqt * 1000000 + (uint64_t)rst * 1000 + (uint64_t)evt);
	vp_state(((uint64_t)rqt << 20) ^ ((uint64_t)rst << 10) ^ (uint64_t)evt ^ ((uint64_t)transport << 40));
	qb_ipcs_destroy(SV);
	qb_loop_destroy(SL);
}

static void init(void)
{
	cdepth = (int)vp_param("client_ops", 3, 4);
	sactions_max = (int)vp_param("server_actions", 1, 2);
	small_bufs = (int)vp_param("small_socket_buffers", 0, 0);
	phaseA_rounds = (int)vp_param("event_drain_rounds", 12, 12);
}

int main(int argc, char **argv)
{
	static struct vp_harness h = {
		.property = "C02", .name = "c02_ipc_fifo", .level = "model_checking",
		.run = run, .init = init, .batch = 40, .private_shm = 1, .timeout_s = 60,
		.rule = "one real qb_ipcs server (real qb_loop) and one real qb_ipcc client as coroutines in one process, both transports, negotiated "
			"maximum = libqb's minimum; every client script of client_ops operations over {send(len in hdr, hdr+1, 1000, max, max+1), "
			"sendv(1000), recv(0), event_recv(0), poll(fd_get)}, every msg_process behaviour per call {echo, nothing, back-off}, up to "
			"server_actions actions at loop-iteration boundaries {event_send(hdr/1000/max), rate_limit(OFF/OFF_2/NORMAL/FAST)}, and every "
			"interleaving of client operations with server loop iterations (plus preemptions at system calls up to the bound); oracle: three "
			"reference FIFOs, byte-exact payloads, drain to quiescence, EMSGSIZE, POLLIN while events are queued; one forked process per execution",
		.assumptions = { "waiting is virtual (zero-timeout kernel queries + virtual deadlines); sockets, epoll, shm files are real", "kernel buffer sizes of this sandbox", NULL },
	};
	return vp_main(argc, argv, &h);
}
