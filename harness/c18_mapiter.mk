LDFLAGS_c18_mapiter := -Wl,--wrap=random
