/* C12: log routing — a message reaches exactly the enabled targets whose filters select its call site */
#include "vp.h"
#include <qb/qblog.h>
#include <qb/qbdefs.h>
#include <errno.h>
#include <stdio.h>
#include <string.h>
#include <stdlib.h>
#include <syslog.h>

struct site { const char *file, *func, *fmt; uint8_t prio; };
static const struct site SITES[] = {
	/* names that are proper prefixes/extensions of each other and of the filter texts: exact matching is promised */
	{ "a.c", "f1", "fmt x", LOG_INFO },
	{ "a.c", "f12", "other", LOG_DEBUG },
	{ "b.c", "f1", "fmt y", LOG_DEBUG },
	{ "a.cc", "f3", "zzz", LOG_INFO },
};
#define NSITES 4
struct spec { enum qb_log_filter_type type; const char *text; };
static const struct spec SPECS[] = {
	{ QB_LOG_FILTER_FILE, "*" }, { QB_LOG_FILTER_FILE, "a.c" }, { QB_LOG_FILTER_FUNCTION, "f1" },
	{ QB_LOG_FILTER_FUNCTION, "f3,f1" }, { QB_LOG_FILTER_FORMAT, "fmt" },
	{ QB_LOG_FILTER_FILE_REGEX, "^b" }, { QB_LOG_FILTER_FUNCTION_REGEX, "f[23]" }, { QB_LOG_FILTER_FORMAT_REGEX, "x$" },
};
static int seeded, high_slots;
static int nspecs;            /* 5 without regex, 8 with */
static const uint8_t LOWS[] = { LOG_INFO, LOG_DEBUG };
#define NT 2
#define MAXRULES 16
struct rule { int spec; uint8_t low; int value; };
static struct { int open, enabled, id; struct rule r[MAXRULES]; int nr; } T[NT];
static struct rule TAGS[MAXRULES];
static int ntags;
static int depth, lineno_next, with_tags, with_close;

/* deliveries of the current log call */
static struct { int target, lineno; uint32_t tags; } DEL[16];
static int ndel;

static void logger(int32_t t, struct qb_log_callsite *cs, struct timespec *ts, const char *msg)
{
	(void)ts; (void)msg;
	if (ndel < 16) { DEL[ndel].target = t; DEL[ndel].lineno = (int)cs->lineno; DEL[ndel].tags = cs->tags; ndel++; }
}
static void closer(int32_t t) { (void)t; }

/* reference implementation of the documented matching */
static int selects(const struct rule *r, const struct site *s)
{
	const struct spec *sp = &SPECS[r->spec];
	if (s->prio > r->low) return 0;
	if (!strcmp(sp->text, "*")) return 1;
	switch (sp->type) {
	case QB_LOG_FILTER_FILE: return !strcmp(s->file, sp->text);
	case QB_LOG_FILTER_FUNCTION: {
		char buf[64], *tok, *save;
		snprintf(buf, sizeof buf, "%s", sp->text);
		for (tok = strtok_r(buf, ",", &save); tok; tok = strtok_r(NULL, ",", &save)) if (!strcmp(tok, s->func)) return 1;
		return 0;
	}
	case QB_LOG_FILTER_FORMAT: return strstr(s->fmt, sp->text) != NULL;
	case QB_LOG_FILTER_FILE_REGEX: return s->file[0] == 'b';                       /* "^b" */
	case QB_LOG_FILTER_FUNCTION_REGEX: return strstr(s->func, "f2") || strstr(s->func, "f3");   /* "f[23]" */
	case QB_LOG_FILTER_FORMAT_REGEX: return s->fmt[strlen(s->fmt) - 1] == 'x';    /* "x$" */
	}
	return 0;
}
static int expect_target(int t, const struct site *s)
{
	int i;
	if (!T[t].open || !T[t].enabled) return 0;
	for (i = 0; i < T[t].nr; i++) if (selects(&T[t].r[i], s)) return 1;
	return 0;
}
static uint32_t expect_tag(const struct site *s)
{
	int i; uint32_t v = 0;
	for (i = 0; i < ntags; i++) if (selects(&TAGS[i], s)) v = (uint32_t)TAGS[i].value;
	return v;
}

static void open_target(int t)
{
	T[t].id = qb_log_custom_open(logger, closer, NULL, NULL);
	if (T[t].id < 0) vp_fail("custom_open failed: %d", T[t].id);
	T[t].open = 1; T[t].enabled = 0; T[t].nr = 0;
}

static void log_once(int si, int lineno, const char *kind)
{
	const struct site *s = &SITES[si];
	int t, i;
	ndel = 0;
	qb_log_from_external_source(s->func, s->file, s->fmt, s->prio, (uint32_t)lineno, 0);
	for (t = 0; t < NT; t++) {
		int want = expect_target(t, s), got = 0;
		uint32_t tag = 0;
		for (i = 0; i < ndel; i++) if (T[t].open && DEL[i].target == T[t].id) { got++; tag = DEL[i].tags; }
		if (got > 1) vp_fail("%s call site %d (%s:%s '%s' prio %d): target %d received the message %d times", kind, si, s->file, s->func, s->fmt, s->prio, t, got);
		if (want && !got) vp_fail("%s call site %d (%s:%s '%s' prio %d): enabled target %d has a filter selecting it but did not receive the message", kind, si, s->file, s->func, s->fmt, s->prio, t);
		if (!want && got) vp_fail("%s call site %d (%s:%s '%s' prio %d): target %d received the message although %s", kind, si, s->file, s->func, s->fmt, s->prio, t,
					  T[t].enabled ? "none of its filters selects it" : "it is disabled");
		if (got && with_tags && tag != expect_tag(s)) vp_fail("%s call site %d: reported tag %u, last matching tag rule says %u", kind, si, tag, expect_tag(s));
	}
	for (i = 0; i < ndel; i++) {
		int known = 0;
		for (t = 0; t < NT; t++) if (T[t].open && DEL[i].target == T[t].id) known = 1;
		if (!known) vp_fail("message delivered to target id %d which is not open", DEL[i].target);
		if (DEL[i].lineno != lineno) vp_fail("delivery carries call site line %d, logged from %d", DEL[i].lineno, lineno);
	}
}

static int find_rule(struct rule *list, int n, int spec, uint8_t low, int value)
{
	int i;
	for (i = 0; i < n; i++) if (list[i].spec == spec && list[i].low == low && list[i].value == value) return i;
	return -1;
}

static void run(void)
{
	int step, t;
	qb_log_init("vp", LOG_USER, LOG_EMERG);
	qb_log_ctl(QB_LOG_SYSLOG, QB_LOG_CONF_ENABLED, QB_FALSE);
	memset(T, 0, sizeof T); ntags = 0; lineno_next = 200;
	if (high_slots) {
		/* every dynamic slot in use: fillers that are never enabled take the lower ones, the targets under test get the
		   last slots of the table (the delivery loops are bounded by the highest slot in use) */
		int nfill = QB_LOG_TARGET_MAX - QB_LOG_TARGET_DYNAMIC_START - NT, k;
		for (k = 0; k < nfill; k++) if (qb_log_custom_open(logger, closer, NULL, NULL) < 0) vp_fail("custom_open of filler target %d failed", k);
	}
	/* with the fillers in place target 0 (the one the seeded start states enable) gets the very last slot */
	for (t = 0; t < NT; t++) open_target(high_slots ? NT - 1 - t : t);
	if (high_slots && T[0].id != QB_LOG_TARGET_MAX - 1) vp_broken("target 0 did not get the last slot (%d)", T[0].id);
	if (seeded) {
		/* non-initial start states: target 0 already enabled with a catch-all filter (tags become observable at once),
		   optionally with every call site already executed once (sites that exist before the rules change) */
		int seed = vp_choose(3, "start state");
		if (seed) {
			int32_t r = qb_log_filter_ctl(T[0].id, QB_LOG_FILTER_ADD, QB_LOG_FILTER_FILE, "*", LOG_DEBUG);
			if (r) vp_fail("seed: filter ADD failed: %d", r);
			T[0].r[0].spec = 0; T[0].r[0].low = LOG_DEBUG; T[0].r[0].value = 0; T[0].nr = 1;
			r = qb_log_ctl(T[0].id, QB_LOG_CONF_ENABLED, QB_TRUE);
			if (r) vp_fail("seed: enable failed: %d", r);
			T[0].enabled = 1;
			vp_log("start: target 0 enabled with filter FILE '*' prio<=debug%s", seed == 2 ? ", every site logged once" : "");
			if (seed == 2) { int si; for (si = 0; si < NSITES; si++) log_once(si, 10 + si, "seed"); }
		}
	}
	for (step = 0; step < depth; step++) {
		int n_f = NT * 2 * nspecs * 2, n_clr = NT, n_en = NT * 2, n_log = NSITES, n_close = with_close ? NT : 0;
		int n_tag = with_tags ? (2 * 3 + 3 + 1) : 0;
		int c = vp_choose(n_log + n_en + n_f + n_clr + n_close + n_tag, "op");
		if (c < n_log) {
			/* the same call site (fixed line) and a twin seen for the first time right now must be routed alike */
			vp_log("log site %d", c);
			log_once(c, 10 + c, "known");
			log_once(c, lineno_next++, "fresh twin of");
			continue;
		}
		c -= n_log;
		if (c < n_en) {
			int32_t r;
			t = c / 2;
			if (!T[t].open) { vp_pruned(); goto out; }
			r = qb_log_ctl(T[t].id, QB_LOG_CONF_ENABLED, (c & 1) ? QB_TRUE : QB_FALSE);
			vp_log("%s target %d = %d", (c & 1) ? "enable" : "disable", t, r);
			if (r) vp_fail("ctl(ENABLED) failed: %d", r);
			T[t].enabled = c & 1;
			continue;
		}
		c -= n_en;
		if (c < n_f) {
			int low = c % 2, spec = (c / 2) % nspecs, rem = (c / 2 / nspecs) % 2, i;
			int32_t r;
			t = c / 2 / nspecs / 2;
			if (!T[t].open) { vp_pruned(); goto out; }
			i = find_rule(T[t].r, T[t].nr, spec, LOWS[low], 0);
			if (rem) {
				/* REMOVE is only judged where its meaning is beyond doubt: the exact rule is stored and no other
				   stored rule of this target could be meant instead (same type with the same text or, for a
				   REMOVE of "*", any rule of that type), or nothing of that kind is stored at all */
				int j, rivals = 0;
				for (j = 0; j < T[t].nr; j++) {
					if (j == i || SPECS[T[t].r[j].spec].type != SPECS[spec].type) continue;
					if (!strcmp(SPECS[spec].text, "*") || !strcmp(SPECS[T[t].r[j].spec].text, SPECS[spec].text)) rivals++;
				}
				if (rivals) { vp_pruned(); goto out; }
			}
			r = qb_log_filter_ctl(T[t].id, rem ? QB_LOG_FILTER_REMOVE : QB_LOG_FILTER_ADD, SPECS[spec].type, SPECS[spec].text, LOWS[low]);
			vp_log("filter %s target %d type %d '%s' prio<=%d = %d", rem ? "REMOVE" : "ADD", t, SPECS[spec].type, SPECS[spec].text, LOWS[low], r);
			if (!rem) {
				if (i >= 0) { if (r != -EEXIST) vp_fail("adding an existing filter returned %d", r); }
				else {
					if (r) vp_fail("filter ADD failed: %d", r);
					T[t].r[T[t].nr].spec = spec; T[t].r[T[t].nr].low = LOWS[low]; T[t].r[T[t].nr].value = 0; T[t].nr++;
				}
			} else {
				if (r) vp_fail("filter REMOVE failed: %d", r);
				if (i >= 0) { memmove(&T[t].r[i], &T[t].r[i + 1], sizeof(struct rule) * (T[t].nr - i - 1)); T[t].nr--; }
			}
			continue;
		}
		c -= n_f;
		if (c < n_clr) {
			int32_t r;
			t = c;
			if (!T[t].open) { vp_pruned(); goto out; }
			r = qb_log_filter_ctl(T[t].id, QB_LOG_FILTER_CLEAR_ALL, QB_LOG_FILTER_FILE, "*", LOG_TRACE);
			vp_log("filter CLEAR_ALL target %d = %d", t, r);
			if (r) vp_fail("CLEAR_ALL failed: %d", r);
			T[t].nr = 0;
			continue;
		}
		c -= n_clr;
		if (c < n_close) {
			t = c;
			if (T[t].open) { qb_log_custom_close(T[t].id); T[t].open = 0; T[t].enabled = 0; T[t].nr = 0; vp_log("close target %d", t); }
			else { open_target(t); vp_log("open target %d -> id %d", t, T[t].id); }
			continue;
		}
		c -= n_close;
		{
			/* tags: SET value {1,2} x spec {0,1,2}; CLEAR spec; CLEAR_ALL */
			int32_t r;
			if (c < 6) {
				int value = 1 + c / 3, spec = c % 3, i = find_rule(TAGS, ntags, spec, LOG_TRACE, value);
				r = qb_log_filter_ctl(value, QB_LOG_TAG_SET, SPECS[spec].type, SPECS[spec].text, LOG_TRACE);
				vp_log("TAG_SET %d on type %d '%s' = %d", value, SPECS[spec].type, SPECS[spec].text, r);
				if (i >= 0) { if (r != -EEXIST) vp_fail("setting an existing tag rule returned %d", r); }
				else { if (r) vp_fail("TAG_SET failed: %d", r); TAGS[ntags].spec = spec; TAGS[ntags].low = LOG_TRACE; TAGS[ntags].value = value; ntags++; }
			} else if (c < 9) {
				int spec = c - 6, i, found = -1, same = 0;
				for (i = 0; i < ntags; i++) if (SPECS[TAGS[i].spec].type == SPECS[spec].type && (TAGS[i].spec == spec || !strcmp(SPECS[spec].text, "*"))) same++;
				if (same > 1) { vp_pruned(); goto out; }       /* which of several rules is meant is not specified */
				if (!strcmp(SPECS[spec].text, "*")) for (i = 0; i < ntags; i++) if (SPECS[TAGS[i].spec].type == SPECS[spec].type && TAGS[i].spec != spec) { vp_pruned(); goto out; }
				r = qb_log_filter_ctl(0, QB_LOG_TAG_CLEAR, SPECS[spec].type, SPECS[spec].text, LOG_TRACE);
				vp_log("TAG_CLEAR type %d '%s' = %d", SPECS[spec].type, SPECS[spec].text, r);
				if (r) vp_fail("TAG_CLEAR failed: %d", r);
				for (i = 0; i < ntags; i++) if (TAGS[i].spec == spec) { found = i; break; }
				if (found >= 0) { memmove(&TAGS[found], &TAGS[found + 1], sizeof(struct rule) * (ntags - found - 1)); ntags--; }
			} else {
				r = qb_log_filter_ctl(0, QB_LOG_TAG_CLEAR_ALL, QB_LOG_FILTER_FILE, "*", LOG_TRACE);
				vp_log("TAG_CLEAR_ALL = %d", r);
				if (r) vp_fail("TAG_CLEAR_ALL failed: %d", r);
				ntags = 0;
			}
		}
	}
	/* epilogue: every site, known and fresh, must be routed according to the final rules */
	{
		int s;
		for (s = 0; s < NSITES; s++) { log_once(s, 10 + s, "final known"); log_once(s, lineno_next++, "final fresh twin of"); }
	}
	{
		uint64_t h = 0; int i;
		for (t = 0; t < NT; t++) { h = vp_hash(&T[t].enabled, sizeof(int), h); h = vp_hash(&T[t].open, sizeof(int), h); for (i = 0; i < T[t].nr; i++) h = vp_hash(&T[t].r[i], sizeof(struct rule), h); }
		for (i = 0; i < ntags; i++) h = vp_hash(&TAGS[i], sizeof(struct rule), h);
		vp_outcome(&h, 8); vp_state(h);
	}
out:
	qb_log_fini();
}

static void init(void)
{
	depth = (int)vp_param("depth", 3, 4);
	nspecs = (int)vp_param("regex_rules", 0, 1) ? 8 : 5;
	with_tags = (int)vp_param("tags", 1, 1);
	with_close = (int)vp_param("close_reopen", 1, 1);
	seeded = (int)vp_param("seeded_starts", 1, 1);
	high_slots = (int)vp_param("last_slots", 0, 0);
}

int main(int argc, char **argv)
{
	static struct vp_harness h = {
		.property = "C12", .name = "c12_log_route", .level = "model_checking",
		.run = run, .init = init, .batch = 300,
		.rule = "every history of <= depth operations over filter ADD/REMOVE (exact file, function with alternatives, format substring, '*', "
			"optionally the three regex types; two priority windows) and CLEAR_ALL on two custom targets, enable/disable, close/reopen, "
			"tag SET/CLEAR/CLEAR_ALL and log calls from four call sites; absolute oracle = reference matcher over the stored rules; "
			"differential oracle = every log call is doubled by a twin site (same file/function/priority/format, never-used line number) "
			"that must be routed and tagged identically; an epilogue logs every site and a fresh twin; fresh qb_log_init per execution",
		.assumptions = { "REMOVE/TAG_CLEAR are issued with exactly the spec of an earlier (or absent) ADD/SET", "syslog target disabled", NULL },
	};
	return vp_main(argc, argv, &h);
}
