LDFLAGS_c15_bb_dump := -Wl,--wrap=clock_gettime -Wl,--wrap=printf -Wl,--wrap=puts -Wl,--wrap=putchar
