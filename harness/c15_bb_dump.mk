LDFLAGS_c15_bb_dump := -Wl,--wrap=clock_gettime -Wl,--wrap=printf -Wl,--wrap=puts -Wl,--wrap=putchar -Wl,--wrap=mmap -Wl,--wrap=munmap -Wl,--wrap=qb_rb_chunk_alloc -Wl,--wrap=qb_rb_chunk_commit
