LDFLAGS_c20_hdb := -Wl,--wrap=random
