/* Shared environment for the event-loop harnesses (C08/C09/C10): the real qb_loop runs on a virtual
 * monotonic clock; epoll, eventfds, pipes and signals are the real kernel objects. */
#include "vp.h"
#include <qb/qbloop.h>
#include <qb/qbdefs.h>
#include <errno.h>
#include <stdio.h>
#include <string.h>
#include <stdlib.h>
#include <unistd.h>
#include <time.h>
#include <signal.h>
#include <sys/epoll.h>
#include <sys/eventfd.h>

static uint64_t vnow = 1000000000ULL;          /* virtual nanoseconds */
static uint64_t vtick = 100000ULL;             /* what a zero-timeout poll costs: 0.1 ms */
static int loop_iterations;
static int last_timeout;
static int blocked_forever;                    /* epoll_wait(-1) (or negative) was issued */
static void (*env_hook)(int iteration, int timeout_ms);    /* harness: called at every iteration boundary */
static long rnd_ctr;

int __wrap_clock_gettime(clockid_t id, struct timespec *ts);
int __wrap_clock_gettime(clockid_t id, struct timespec *ts)
{
	(void)id;
	ts->tv_sec = (time_t)(vnow / 1000000000ULL); ts->tv_nsec = (long)(vnow % 1000000000ULL);
	return 0;
}
int __wrap_clock_getres(clockid_t id, struct timespec *ts);
int __wrap_clock_getres(clockid_t id, struct timespec *ts) { (void)id; ts->tv_sec = 0; ts->tv_nsec = 1; return 0; }
long __wrap_random(void);
long __wrap_random(void) { return 1000 + (++rnd_ctr); }

int __real_epoll_wait(int epfd, struct epoll_event *ev, int maxev, int timeout);
int __wrap_epoll_wait(int epfd, struct epoll_event *ev, int maxev, int timeout);
int __wrap_epoll_wait(int epfd, struct epoll_event *ev, int maxev, int timeout)
{
	int n;
	loop_iterations++;
	last_timeout = timeout;
	if (env_hook) env_hook(loop_iterations, timeout);
	n = __real_epoll_wait(epfd, ev, maxev, 0);
	if (n != 0) { vnow += vtick; return n; }
	if (timeout < 0) { blocked_forever++; vnow += 3600ULL * 1000000000ULL; return 0; }   /* "for ever": jump one hour */
	vnow += timeout ? (uint64_t)timeout * 1000000ULL : vtick;
	return 0;
}

/* libqb naps for 100 ms on an unexpected poll event: keep that virtual */
int __wrap_usleep(unsigned usec);
int __wrap_usleep(unsigned usec) { vnow += (uint64_t)usec * 1000ULL; return 0; }
