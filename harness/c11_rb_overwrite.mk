LDFLAGS_c11_rb_overwrite := -Wl,--wrap=mmap
