/* C10: event-loop priorities are weak — no level is starved */
#include "loop_common.h"

enum { K_NONE, K_JOBS, K_FDS, K_TIMERS };
static const char *kn[] = { "nothing", "jobs", "fds", "timers" };
static const int MS[] = { 1, 2, 5, 9 };
static int nms, horizon, inject, perturb;
static qb_loop_t *L;
static int kind[3], mult[3];
static int disp[3][128];        /* dispatches per level per iteration */
static int inj_level = -1, inj_iter, inj_done_at = -1, inj_added_at = -1;

static void job_cb(void *data)
{
	int p = (int)(intptr_t)data;
	disp[p][loop_iterations]++;
	qb_loop_job_add(L, (enum qb_loop_priority)p, data, job_cb);
}
static int32_t fd_cb(int32_t fd, int32_t revents, void *data)
{
	(void)fd; (void)revents;
	disp[(int)(intptr_t)data][loop_iterations]++;
	return 0;
}
static void timer_cb(void *data)
{
	int p = (int)(intptr_t)data;
	qb_loop_timer_handle h;
	disp[p][loop_iterations]++;
	qb_loop_timer_add(L, (enum qb_loop_priority)p, 0, data, timer_cb, &h);
}
static void once_cb(void *data) { (void)data; inj_done_at = loop_iterations; }

/* a descriptor that is already queued for dispatch at one level is moved to another level and deleted before its turn
   (what a rate-limit change followed by a disconnect does to an IPC connection's descriptor) */
static int pert_fd = -1, pert_to, pert_calls;
static int32_t pert_fd_cb(int32_t fd, int32_t revents, void *data) { (void)fd; (void)revents; (void)data; pert_calls++; return 0; }
static void pert_job(void *data)
{
	int32_t r1, r2;
	(void)data;
	r1 = qb_loop_poll_mod(L, (enum qb_loop_priority)pert_to, pert_fd, POLLIN, NULL, pert_fd_cb);
	r2 = qb_loop_poll_del(L, pert_fd);
	close(pert_fd);
	vp_log("iteration %d: queued descriptor moved to level %d (%d) and deleted (%d)", loop_iterations, pert_to, r1, r2);
	if (r1 || r2) vp_fail("poll_mod/poll_del of a registered descriptor failed: %d %d", r1, r2);
}

static void hook(int it, int timeout)
{
	(void)timeout;
	if (inj_level >= 0 && it == inj_iter && inj_added_at < 0) {
		qb_loop_job_add(L, (enum qb_loop_priority)inj_level, NULL, once_cb);
		inj_added_at = it;
	}
	if (it >= horizon) qb_loop_stop(L);
}

static void run(void)
{
	int p, i, w, fds[32], nfds = 0, opp[3] = { 0, 0, 0 }, first_pending[3];
	vnow = 1000000000ULL; loop_iterations = 0; blocked_forever = 0; rnd_ctr = 0;
	memset(disp, 0, sizeof disp); inj_level = -1; inj_done_at = inj_added_at = -1;
	L = qb_loop_create();
	pert_fd = -1; pert_calls = 0;
	if (perturb) {
		static const int pairs[6][2] = { { 0, 1 }, { 0, 2 }, { 1, 0 }, { 1, 2 }, { 2, 0 }, { 2, 1 } };
		int c = vp_choose(1 + 6, "a queued descriptor is re-prioritised and deleted");
		if (c) {
			pert_fd = eventfd(1, EFD_NONBLOCK); pert_to = pairs[c - 1][1];
			qb_loop_job_add(L, QB_LOOP_HIGH, NULL, pert_job);          /* first in its level: runs before the descriptor's turn */
			if (qb_loop_poll_add(L, (enum qb_loop_priority)pairs[c - 1][0], pert_fd, POLLIN, NULL, pert_fd_cb) != 0) vp_fail("poll_add failed");
			vp_log("a ready descriptor at level %d will be moved to level %d and deleted while queued", pairs[c - 1][0], pert_to);
		}
	}
	for (p = 2; p >= 0; p--) {
		int c = vp_choose(1 + 3 * nms, p == 2 ? "HIGH workload" : p == 1 ? "MED workload" : "LOW workload");
		kind[p] = c == 0 ? K_NONE : 1 + (c - 1) / nms;
		mult[p] = c == 0 ? 0 : MS[(c - 1) % nms];
		for (i = 0; i < mult[p]; i++) {
			if (kind[p] == K_JOBS) qb_loop_job_add(L, (enum qb_loop_priority)p, (void *)(intptr_t)p, job_cb);
			else if (kind[p] == K_TIMERS) { qb_loop_timer_handle h; qb_loop_timer_add(L, (enum qb_loop_priority)p, 0, (void *)(intptr_t)p, timer_cb, &h); }
			else if (kind[p] == K_FDS) {
				int fd = eventfd(1, EFD_NONBLOCK);
				if (fd < 0) vp_broken("eventfd");
				fds[nfds++] = fd;
				if (qb_loop_poll_add(L, (enum qb_loop_priority)p, fd, POLLIN, (void *)(intptr_t)p, fd_cb) != 0) vp_fail("poll_add failed");
			}
		}
	}
	if (inject) {
		int c = vp_choose(1 + 3 * 6, "one-shot injection");
		if (c) { inj_level = (c - 1) % 3; inj_iter = 1 + (c - 1) / 3; }
	}
	vp_log("HIGH: %d x %s, MED: %d x %s, LOW: %d x %s%s", mult[2], kn[kind[2]], mult[1], kn[kind[1]], mult[0], kn[kind[0]], inj_level >= 0 ? " + one-shot job" : "");
	env_hook = hook;
	qb_loop_run(L);
	env_hook = NULL;

	/* a level has pending work from the iteration after its first dispatch opportunity could exist: everything
	   registered before run is pending from iteration 1 (fds/jobs) or 2 (zero-delay timers need the clock to move) */
	for (p = 0; p < 3; p++) first_pending[p] = kind[p] == K_NONE ? 9999 : kind[p] == K_TIMERS ? 2 : 1;
	for (p = 0; p < 3; p++) {
		if (kind[p] == K_NONE) continue;
		for (w = first_pending[p]; w + 3 < horizon; w++) {
			/* a re-armed zero-delay timer is pending only once the clock has moved, i.e. from the next iteration on */
			if (disp[p][w] + disp[p][w + 1] + disp[p][w + 2] + (kind[p] == K_TIMERS ? disp[p][w + 3] : 0) == 0)
				vp_fail("level %d (%d x %s) dispatched nothing in iterations %d..%d although it has pending work (HIGH %d x %s, MED %d x %s, LOW %d x %s)",
					p, mult[p], kn[kind[p]], w, w + 2, mult[2], kn[kind[2]], mult[1], kn[kind[1]], mult[0], kn[kind[0]]);
		}
		for (w = first_pending[p]; w < horizon; w++) opp[p] += disp[p][w] > 0;
	}
	/* higher levels get at least as many turns (compared over the span where both have work) */
	for (p = 0; p < 2; p++) {
		int q = p + 1, a = 0, b = 0, from = first_pending[p] > first_pending[q] ? first_pending[p] : first_pending[q];
		if (kind[p] == K_NONE || kind[q] == K_NONE) continue;
		/* turns are observable only through work that is pending in every iteration (jobs, descriptors) */
		if (kind[p] == K_TIMERS || kind[q] == K_TIMERS) continue;
		/* ... and descriptors only while the kernel reports all ready ones in one poll (the loop asks for 12 per call) */
		if ((kind[p] == K_FDS || kind[q] == K_FDS) && nfds > 12) continue;
		for (w = from; w < horizon; w++) { a += disp[p][w] > 0; b += disp[q][w] > 0; }
		if (b < a) vp_fail("level %d got %d turns, the lower level %d got %d over the same %d iterations", q, b, p, a, horizon - from);
	}
	if (pert_calls) vp_fail("the deleted descriptor's callback ran %d times", pert_calls);
	if (inj_level >= 0 && inj_added_at > 0) {
		if (inj_done_at < 0) vp_fail("one-shot job added at iteration %d to level %d never ran within %d iterations", inj_added_at, inj_level, horizon);
		if (inj_done_at - inj_added_at > 4 + 9) vp_fail("one-shot job at level %d waited %d iterations", inj_level, inj_done_at - inj_added_at);
	}
	{
		uint64_t h = 0;
		for (p = 0; p < 3; p++) for (w = 0; w < 16; w++) h = h * 31 + (uint64_t)(disp[p][w] > 0);
		vp_outcome_u64(h); vp_state(h ^ ((uint64_t)kind[0] << 40) ^ ((uint64_t)kind[1] << 44) ^ ((uint64_t)kind[2] << 48));
	}
	for (i = 0; i < nfds; i++) { qb_loop_poll_del(L, fds[i]); close(fds[i]); }
	qb_loop_destroy(L);
}

static void init(void)
{
	nms = (int)vp_param("multiplicities", 3, 4);
	horizon = (int)vp_param("iterations", 30, 60);
	inject = (int)vp_param("inject_one_shot", 0, 1);
	perturb = (int)vp_param("requeue_and_delete", 1, 1);
}

int main(int argc, char **argv)
{
	static struct vp_harness h = {
		.property = "C10", .name = "c10_loop_fair", .level = "model_checking",
		.run = run, .init = init, .batch = 500,
		.rule = "all workloads: per priority one of {nothing, m self-re-adding jobs, m always-ready descriptors (eventfd), m zero-delay "
			"self-re-arming timers}, m in {1,2,5(,9)}, optionally a one-shot job injected into any level at iteration 1..6; the real "
			"qb_loop_run on a virtual clock for a fixed horizon of iterations (the rotation has period 3, the run is deterministic); every "
			"window of 3 consecutive iterations is checked for each level with pending work, and turns(HIGH) >= turns(MED) >= turns(LOW)",
		.assumptions = { "virtual monotonic clock; real epoll/eventfd", "an iteration = one call of epoll_wait", NULL },
	};
	return vp_main(argc, argv, &h);
}
