# Builds the engine, libqb objects (straight from /repo's working tree) and harnesses.
REPO ?= /repo
B := build
CC := clang
LIBSRC := array hashtable hdb ipc_setup ipc_shm ipc_socket ipcc ipcs log log_blackbox log_dcs \
          log_file log_format log_syslog log_thread loop loop_job loop_poll loop_poll_epoll \
          loop_timerlist map ringbuffer ringbuffer_helper skiplist trie unix util strlcpy strlcat

INC := -I$(REPO)/include -I$(REPO)/include/qb -I$(REPO)/lib -I/verif/compat -I/verif/compat/qb -I/verif/engine
BASE := -g -O1 -fno-omit-frame-pointer -fno-inline-functions -DHAVE_CONFIG_H -D_GNU_SOURCE -pthread -w
ASAN := -fsanitize=address -fsanitize=bounds -fno-sanitize-recover=all
LIBQB_A := $(B)/libqb_asan.a
ENGINE_O := $(B)/engine/vp.o
SCHED_O := $(B)/engine/vp_sched.o $(B)/engine/vp_tsan_abi.o
SCHED_WRAP := -Wl,--wrap=pthread_mutex_lock -Wl,--wrap=pthread_mutex_trylock -Wl,--wrap=pthread_mutex_unlock -Wl,--wrap=pthread_spin_lock -Wl,--wrap=pthread_spin_trylock -Wl,--wrap=pthread_spin_unlock -Wl,--wrap=sem_wait -Wl,--wrap=sem_trywait -Wl,--wrap=sem_post -Wl,--wrap=sem_getvalue
THREAD_WRAP := -Wl,--wrap=pthread_create -Wl,--wrap=pthread_join -Wl,--wrap=pthread_exit -Wl,--wrap=pthread_rwlock_rdlock -Wl,--wrap=pthread_rwlock_wrlock -Wl,--wrap=pthread_rwlock_unlock

HARNESSES := $(patsubst harness/%.c,%,$(wildcard harness/c[0-9][0-9]_*.c))
.PRECIOUS: $(B)/engine/%.o $(B)/tsan/%.o $(B)/asan/%.o
.PHONY: all clean setup
all: setup
setup: $(HARNESSES:%=$(B)/%)

$(B)/asan/%.o: $(REPO)/lib/%.c
	@mkdir -p $(dir $@)
	$(CC) $(BASE) $(ASAN) $(INC) -MMD -MP -c $< -o $@

$(LIBQB_A): $(LIBSRC:%=$(B)/asan/%.o)
	@rm -f $@
	ar rcs $@ $^

$(B)/engine/%.o: engine/%.c engine/vp.h engine/vp_sched.h
	@mkdir -p $(dir $@)
	$(CC) $(BASE) $(ASAN) $(INC) -MMD -MP -c $< -o $@

# TSan-ABI instrumented copies of single libqb translation units (no TSan runtime is linked;
# engine/vp_tsan_abi.c provides the callbacks).  memcpy and the allocator are redirected on
# the command line only.
TSANF := -fsanitize=thread -Dmemcpy=vp_memcpy -Dmemset=vp_memset -Dmalloc=vp_malloc -Dcalloc=vp_calloc -Drealloc=vp_realloc -Dfree=vp_free
$(B)/tsan/%.o: $(REPO)/lib/%.c
	@mkdir -p $(dir $@)
	$(CC) $(BASE) $(TSANF) $(INC) -include /verif/engine/vp_redirect.h -MMD -MP -c $< -o $@

.SECONDEXPANSION:
# generic harness rule: harness/<name>.c (+ per-harness link flags from harness/<name>.mk)
-include harness/*.mk

$(B)/%: harness/%.c $(ENGINE_O) $(LIBQB_A) $$(EXTRA_$$*)
	@mkdir -p $(dir $@)
	$(CC) $(BASE) $(ASAN) $(INC) -MMD -MP $< $(ENGINE_O) $(EXTRA_$*) $(LIBQB_A) $(LDFLAGS_$*) -ldl -lrt -o $@

clean:
	rm -rf $(B)

-include $(wildcard $(B)/asan/*.d $(B)/engine/*.d $(B)/tsan/*.d $(B)/*.d)
