#!/bin/bash
# run_demo.sh <seeded id, e.g. C15-m6> <library tree (configured and built in-tree)>
# Runs the demonstration kept with a seeded change against the given tree: exit 1 = the property is violated, 0 = fine.
# The demonstrations were written in scratch directories /tmp/mut{,2,3,4}/<Cxx>/ as mN_demo.{c,sh}; some of them refer to
# that place (scratch files, sibling sources), so the layout is recreated there and removed afterwards.
id=$1; T=$(readlink -f "$2"); P=${id%%-*}; M=${id##*-}; S=/verif/seeded/$id
[ -d "$S" ] && [ -d "$T/lib/.libs" ] || { echo "usage: run_demo.sh <id> <built library tree>"; exit 2; }
made=""
for r in /tmp/mut /tmp/mut2 /tmp/mut3 /tmp/mut4; do
	[ -d $r/$P ] || { mkdir -p $r/$P && made="$made $r/$P"; }
	for f in $S/demo.*; do cp $f $r/$P/${M}_$(basename $f); done
done
D=/tmp/mut4/$P
if [ -f $D/${M}_demo.sh ]; then (cd $D && bash ./${M}_demo.sh $T); rc=$?
else (cd $D && gcc -g -O0 -I$T/include -I$T/lib ${M}_demo.c $T/lib/.libs/libqb.a -lpthread -ldl -lrt -o ${M}_demo.bin && ./${M}_demo.bin); rc=$?
fi
for r in /tmp/mut /tmp/mut2 /tmp/mut3 /tmp/mut4; do rm -f $r/$P/${M}_demo.*; done
for d in $made; do rm -rf $d; rmdir $(dirname $d) 2>/dev/null; done
exit $rc
