#!/usr/bin/env python3
"""Regenerates /verif/MANIFEST.json from the table below and validates it."""
import json, os, sys
ROOT = os.path.dirname(os.path.dirname(os.path.abspath(__file__)))
ALL = ["C%02d" % i for i in range(1, 21)]

# property -> (level, design_ref, engine, technique, level text, level note)
CLAIMED = {
 "C20": ("model_checking", "DESIGN.md §2 C20", "vp",
   "bounded-exhaustive enumeration of operation histories on the real qb_hdb against a reference model (stateless explorer)",
   "Every history up to the stated depth over create/get/put/destroy/refcount_get/iterate on live, destroyed, reused-slot and never-issued handle values is executed on the real handle database and compared step by step with a slot/refcount model; ASan is an additional oracle.",
   "Depth and object count are bounded (see evidence params); random() is replaced by a deterministic sequence; single-threaded use."),
}

NOT_YET = "check not built yet in this round (see DESIGN.md §5 order of work)"

def main():
    checks = []
    for p in ALL:
        if p not in CLAIMED: continue
        lvl, ref, eng, tech, text, note = CLAIMED[p]
        checks.append({
            "property_id": p,
            "quick_cmd": "./check %s quick" % p,
            "thorough_cmd": "./check %s thorough" % p,
            "evidence_file": "/verif/evidence/%s.json" % p,
            "replay_cmd_template": "./check %s quick --replay {path}" % p,
            "engine": eng,
            "level_claimed": {"category": lvl, "text": text, "design_ref": ref},
            "level_note": note,
            "technique": tech,
        })
    extra_na = {}
    nap = os.path.join(ROOT, "tools", "not_applicable.json")
    if os.path.exists(nap): extra_na = json.load(open(nap))
    m = {
        "version": 1,
        "setup_cmd": "make -C /verif -j16 setup",
        "hooks": {
            "guard": "LIBQB_VERIF",
            "enable": "none needed: checks compile /repo/lib/*.c themselves (ASan / TSan-ABI instrumentation, ld --wrap); no source hooks exist",
            "baseline_off_cmd": "make -C /repo -j8 && make -C /repo/tests check",
            "source_commits": [],
            "add_only": True,
        },
        "engines": [
            {"name": "vp", "path": "/verif/engine",
             "serves_properties": sorted(CLAIMED),
             "kind_free_text": "stateless replay-based choice-tree explorer (deviation/preemption bounded, 16 forked workers, shared visited set), deterministic coroutine scheduler with TSan-ABI access-level scheduling points, ld --wrap environment (virtual clock, real kernel objects)"}
        ],
        "checks": checks,
        "notes": "All checks are bounded-exhaustive explorations of the real libqb code (no separate model). Known findings: /verif/known_findings.json.",
        "not_applicable": [{"property_id": p, "reason": extra_na.get(p, NOT_YET)} for p in ALL if p not in CLAIMED],
    }
    with open(os.path.join(ROOT, "MANIFEST.json"), "w") as f:
        json.dump(m, f, indent=1)
    try:
        import jsonschema
        jsonschema.validate(m, json.load(open("/root/.vp/MANIFEST.schema.json")))
        print("MANIFEST.json valid,", len(checks), "checks")
    except ImportError:
        print("MANIFEST.json written (jsonschema not available to validate)")

if __name__ == "__main__":
    main()
