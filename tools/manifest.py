#!/usr/bin/env python3
"""Regenerates /verif/MANIFEST.json from the table below and validates it."""
import json, os, sys
ROOT = os.path.dirname(os.path.dirname(os.path.abspath(__file__)))
ALL = ["C%02d" % i for i in range(1, 21)]

# property -> (level, design_ref, engine, technique, level text, level note)
CLAIMED = {
 "C05": ("exploration", "DESIGN.md §2 C05", "vp",
   "exhaustive enumeration of the configuration product (transport x client credentials x accept decision x owner/mode chosen) on the real IPC code, with a monitor that walks the private /dev/shm after every file-system call of the server",
   "For each of the 96 configurations the client coroutine runs under its own real and effective uid/gid (per-thread setresuid/setresgid), so the credentials the accept callback is given and every permission check are the kernel's. After every wrapped file-system call the server makes (mkdtemp, open, chmod, chown, ftruncate, bind, unlink, rmdir) the private /dev/shm is walked: no directory may carry 'other' bits and no file may be more permissive than the connection's mode at that moment; once the client's connect call has returned, every entry must belong to the authorised owner/group. A refusal must fail the connect call with exactly that error, leave no file, directory or descriptor behind and never reach the message callback.",
   "Needs root with CAP_SYS_ADMIN; one canonical schedule per configuration (one deviation in thorough); chosen modes that do not let the client open its files are expected to make connect fail; the 0770 connection directory is the documented design (group bits on the directory are not flagged)."),
 "C06": ("exploration", "DESIGN.md §2 C06", "vp",
   "bounded-exhaustive enumeration of hostile handshake byte strings and of hostile messages of an accepted client against a live real server, ASan plus a reading message callback as oracle",
   "With a well-behaved control client connected, a raw client sends every prefix of a valid handshake, every field (id, size, max_msg_size) replaced by eight boundary values, 1-64 bytes of trailing garbage, and the request split at every byte with loop iterations in between, each followed by close, silence or 24 KiB of further writing; an accepted client then writes, through the raw channels (ring chunk + notification byte, or datagram), messages whose real length (0..2*max) and announced length (INT_MIN..INT_MAX around the real length and the maximum) disagree in every combination, with three ids. The server must keep serving the control client, never invoke the message callback for an unaccepted peer, never tell the callback more bytes than were received or negotiated (the callback reads exactly that many bytes under ASan), and release the peer's descriptors.",
   "Input sets bounded as stated; the raw channels of the hostile client are reached through the client-side struct qb_ipc_one_way."),
 "C03": ("fault_enumeration", "DESIGN.md §2 C03", "vp",
   "exhaustive crash-point enumeration: the dying party (client or server coroutine of the real IPC code) is stopped before each of its wrapped system/libc calls in turn and exactly its descriptors are closed",
   "For both transports and each session script (connect/disconnect; two request/response round trips; further requests left queued behind flow control; queued events; a raw client delivering only the first j handshake bytes) the run is repeated with the client killed before its K-th wrapped call for every K, with the server killed before its K-th call during each session, with the server killed K calls after the connect while sendv_recv(-1), event_recv(-1) or recv(500 ms) is waiting on a server that does not answer, a handled signal may interrupt that waiting call once half-way (EINTR); and - deaths at arbitrary moments of the OTHER side's execution - with the client killed (wherever it is, also blocked inside a call) just before the J-th wrapped call the server makes during the session for every J, and the server killed just before the client's J-th call. A control client stays connected. Oracle: destroyed exactly once (closed first iff created was reported), the control client's round trip still works, /dev/shm listing, descriptor count and active-connection statistic return to the baseline; waiting calls return within a bounded virtual time, later calls fail at once, and after the client's disconnect no shared-memory file of the dead server remains.",
   "Death at call boundaries of the wrapped set (socket, connect, bind, accept, send/recv(msg), writev, poll, epoll_wait, sem_timedwait, nanosleep, open, unlink, rmdir, mkdtemp, ftruncate, chmod, chown, munmap, shutdown) or while blocked in one of them; one canonical schedule per crash point in quick, one deviation in thorough; an empty directory left by a dead server is not counted as a shared-memory file; a server that dies while the client is already inside qb_ipcc_disconnect is not judged for leftovers."),
 "C04": ("model_checking", "DESIGN.md §2 C04", "vp",
   "bounded-exhaustive exploration of client scripts, application actions taken at loop-iteration boundaries and inside callbacks, and client/server interleavings of the real IPC server against a per-connection callback automaton (ASan for freed state)",
   "One client with scripts of up to 3 operations over connect, send, disconnect, die, idle (and two clients with shorter scripts, context-bounded) against a real server on both transports; at every loop-iteration boundary where something changed and inside every created/msg_process/closed callback the application takes one of: nothing, qb_ipcs_disconnect of any known connection, event_send, connection_ref, connection_unref (of references it holds), iterate the connection list, change the rate limit, qb_ipcs_destroy; the closed callback returns non-zero 0-2 times; what the scripts left queued is still dispatched with the application free to act; a third run kills the client in the middle of the handshake (just before the server's J-th call, every J); the rate-limit action switches flow control on and off for every listed connection. Oracle: accept -> created -> msg* -> closed+ -> destroyed per connection, closed only if created, destroyed exactly once and never while the application holds a reference, everything destroyed in the end, no touch of freed connection/service state.",
   "At most 1-2 non-trivial application actions per run; one forked process per execution; a dying client = its descriptors are closed."),
 "C02": ("model_checking", "DESIGN.md §2 C02", "vp",
   "bounded-exhaustive exploration of client scripts, server behaviours and client/server interleavings of the real IPC code (server and client as coroutines in one process, real sockets/epoll/shm, virtual waiting)",
   "A real qb_ipcs server on a real qb_loop and a real qb_ipcc client run as coroutines of one process on both transports with libqb's minimum negotiated message size. Every client script of 2-3 operations over send (five lengths incl. max and max+1), sendv, recv(0), event_recv(0) and poll(fd_get), every msg_process behaviour per call (echo / nothing / back-off), server actions at loop-iteration boundaries (event_send of three lengths, the four rate-limit settings, a burst of 7 events on minimum-size socket buffers) and every interleaving of client operations with server iterations — plus up to 1 preemption at any system call — is executed; the server application also acts on its own (its loop is woken once before the client's first and twice after its last operation); on minimum-size buffers the client has a burst of 8 small sendv requests; at the end events are drained first with the rate limit left as the application set it. Oracle: three reference FIFOs with byte-exact payloads (requests are compared at callback entry and again at its end), a failed send has no effect, EMSGSIZE above the maximum, POLLIN on the client's descriptor while events are queued, drain to quiescence with nothing lost, duplicated or extra.",
   "Bounds as stated; one client; waiting is virtual (zero-timeout kernel queries + virtual deadlines) while sockets, epoll and shared-memory files are the real kernel objects; word-level ring interleavings are C01's job; kernel buffer sizes of this sandbox."),
 "C08": ("model_checking", "DESIGN.md §2 C08", "vp",
   "bounded-exhaustive enumeration of registration sets and of actions taken at every callback invocation on the real event loop (virtual clock, real epoll/eventfd/signals) against a registration model",
   "Up to 3 registrations (job, zero-delay timer, ready eventfd, SIGUSR1/SIGUSR2 handler, two priorities) are made before qb_loop_run; at every callback invocation the explorer picks one action out of: nothing, delete self, re-add self, add a job, add a 3 ms timer, use a stale timer handle, raise a handled signal, qb_loop_stop, return -1, and for every other registration delete it (also while it is queued for dispatch), toggle its readiness, poll_mod it, or close the descriptor and register a new one with the reused number; at most 2 (thorough 3) non-trivial actions per run. Oracle: jobs and timers exactly once, nothing after a successful delete, FIFO jobs per priority, descriptors called while ready and registered and never after delete/-1, signal callbacks once per delivery and from loop context, stale handles refused, stop makes run return; ASan for freed loop items.",
   "Bounds as stated; signal delivery by raise() is synchronous; 14-iteration horizon."),
 "C09": ("model_checking", "DESIGN.md §2 C09", "vp",
   "exhaustive enumeration of duration tuples and of timer-heap add/delete/advance histories on the real event loop driven by a virtual clock",
   "The real qb_loop runs with clock_gettime/clock_getres/epoll_wait wrapped: the virtual clock advances by exactly the timeout the loop passes to epoll_wait, so sleeping past an expiry or blocking without a timeout is observed directly. All tuples of up to 3 timers with durations from 0 to 2^64-1 ns (incl. the 2^31 and 2^32 ms boundaries) x priorities, with and without a queued job, are run for up to 12000 iterations of virtual time; all histories of up to 7 (thorough 9) operations over add(10/20/30 ms), delete(k-th pending) and run-for-10-ms exercise the heap; heap shapes: 2-7 (thorough 8) timers with pairwise distinct expiries added in every order, then every deletion of up to two of them, run to the end. Oracle: never early, at most slack late, expiry order within a priority, every poll timeout finite and not beyond the earliest expiry + slack, deleted timers never fire, is_running/time_remaining consistent.",
   "Slack = 2 ms (+50 ms once a job was queued); what is_running reports between expiry and dispatch is not judged; durations limited to the listed boundary set."),
 "C10": ("model_checking", "DESIGN.md §2 C10", "vp",
   "exhaustive enumeration of workloads on the real event loop (deterministic run, rotation period 3, fixed horizon) with a window oracle",
   "All 13^3 workloads — per priority nothing or m in {1,2,5,9} self-re-adding jobs, always-ready eventfds or zero-delay self-re-arming timers — optionally with a one-shot job injected into any level at iteration 1..6, are run on the real qb_loop for 30 (thorough 90) iterations of a virtual clock; every window of three consecutive iterations must contain a dispatch for every level that has pending work, a one-shot job must run within a bounded number of iterations, and higher levels get at least as many turns as lower ones.",
   "Turns are compared only between levels whose work is pending in every iteration (jobs; descriptors while all ready ones fit the 12-event poll batch); a re-armed zero-delay timer counts as pending from the next iteration."),
 "C15": ("exploration", "DESIGN.md §2 C15", "vp",
   "exhaustive enumeration of record sequences (round trip after every record) and of a damage grammar over real dump files, each printed by the real reader under ASan",
   "Round trip: every sequence of up to 5 (thorough 7) log calls of four kinds, after 0/7/9/12 filler records (so the ring wraps), into blackboxes of three sizes; after every record the blackbox is dumped, printed, and the captured output compared field by field (priority, function, line, tags, timestamp, text) with the newest records. Robustness: three valid dumps damaged by every truncation length, every header word x 12 boundary values with and without repaired hash, pairs of header words, every field of the oldest record x 10 values, every single byte flipped, short files announcing tiny rings, arbitrary small files: the print call must return without crash, assertion or sanitizer report and leave /dev/shm unchanged.",
   "Damage grammar bounded as stated (single and selected double damage); result code of the print call is not judged; batches of 100 files per forked process with exact crash attribution."),
 "C14": ("exploration", "DESIGN.md §2 C14", "vp",
   "bounded-exhaustive enumeration of a printf-format/argument grammar through the real blackbox encoder and decoder with exact-size heap buffers (ASan), compared with vsnprintf",
   "All formats of up to 2 (thorough 3) conversions — the first from the full product of flags, width (incl. *), precision (incl. .*), length modifier l ll z t j and conversion d i o u x X c s p e E f F g G a A %% that C defines, the others from 14 representative conversions — with literal text of 0, 2 and 600 characters around them and extreme integer, floating and string arguments (empty, containing '%', 600 characters, NULL) are encoded with qb_vsnprintf_serialize into buffers of exactly fit-1, fit and 512 bytes and decoded with qb_vsnprintf_deserialize into buffers of 1, 16, fit and 512 bytes; the decoder reads from an exact-size copy of the record; the decoded text must equal vsnprintf's whenever it fits, and no byte may be touched outside any of the buffers.",
   "Grammar bounded as stated; argument lists are built with the x86-64 SysV calling convention; %lc, %ls, %n and a NULL %s with a precision are outside the alphabet; a serialize return value >= the space counts as 'did not fit' (the caller's contract)."),
 "C13": ("exploration", "DESIGN.md §2 C13", "vp",
   "bounded-exhaustive enumeration of a format/message/limit grammar against the real formatter with exact-size heap buffers (ASan) and a reference formatter",
   "All target formats of up to 2 (thorough 3) items from literals, a 300-character literal and every directive % [-] [width] letter (documented letters, an unknown letter, %%, end of string), for every max_line_length value qb_log_ctl accepts from a boundary set, ellipsis on/off, message lengths around the limit and far beyond, with trailing newline: qb_log_format_set + qb_log_target_format write into an exact-size heap buffer, the result must be NUL-terminated within the limit and equal the reference formatter's line (exactly when it fits; prefix + ellipsis when cut). A second run sends log calls (incl. empty and over-long expansions, extended-information marker) through a custom and a file target.",
   "Grammar bounded as stated; '-' pads on the left as in tests/check_log.c; the text of a right-aligned field cut by the limit is not judged; formats with undocumented directives are judged for memory safety and termination only; TZ=UTC."),
 "C12": ("model_checking", "DESIGN.md §2 C12", "vp",
   "bounded-exhaustive enumeration of configuration/log-call histories on the real logging core with an absolute reference matcher and a differential fresh-twin call-site oracle",
   "Every history up to the stated depth over filter ADD/REMOVE/CLEAR_ALL (exact file, function alternatives, format substring, '*', the three regex types, two priority windows), tag SET/CLEAR/CLEAR_ALL, enable/disable, close/reopen on two custom targets and log calls from four call sites (whose file/function names are prefixes of each other and of the filter texts) is run after a fresh qb_log_init, from three start states (empty; target 0 enabled with a catch-all filter; the same with every site already executed). Each log call must reach exactly the enabled targets whose stored rules select the site (reference implementation of the documented matching) exactly once with the tag of the last matching tag rule; every call is doubled by a twin call site seen for the first time at that moment, which must be routed identically (order independence); an epilogue logs all sites and fresh twins.",
   "Depth 3 over the full alphabet, depth 4 over filters only in thorough; REMOVE/TAG_CLEAR are judged only where it is unambiguous which stored rule is meant; syslog target disabled."),
 "C16": ("model_checking", "DESIGN.md §2 C16", "vp",
   "preemption-bounded exhaustive exploration of producer histories against libqb's own logging thread run as a coroutine (TSan-ABI scheduling points in lib/log_thread.c, wrapped pthread/semaphore/lock calls)",
   "Every legal producer history up to the stated depth over init, custom_open, set-threaded, thread_start, enable/disable, reconfigure, log, close, fini and re-init is executed with the real logging thread as a second coroutine; every interleaving up to the preemption bound at each memory access of lib/log_thread.c and each synchronisation call is explored, one forked process per execution. Oracle: each message written exactly once, in order, by the time qb_log_fini returns (or accounted for by the 'messages lost' report in the 260 x 4000-byte burst runs, where three more messages logged after the backlog was worked off must be written too), a write takes time (the thread yields inside the target's logger) and the target's close callback must never run meanwhile, no deadlock, no sanitizer report, second init/start/log/fini cycle equal to the first.",
   "Preemption bound 1 (depth 8) and 2 (depth 6) in quick; sequentially consistent scheduler; single producer; logging on a THREADED target before qb_log_thread_start is outside the alphabet."),
 "C19": ("model_checking", "DESIGN.md §2 C19", "vp",
   "bounded-exhaustive history enumeration (sequential) plus stateful exhaustive interleaving exploration of the real array code at memory-access granularity (TSan-ABI scheduling points)",
   "Sequential: every history up to the stated depth of index/grow calls over boundary indices/sizes, for all element sizes x initial sizes x auto-grow settings, against address-stability/disjointness/zero-init/persistence/error-code oracles. Concurrent: lib/array.c compiled with the TSan ABI; 2-3 coroutines run all combinations of index/grow scripts that force bin allocation and bin-table reallocation; ALL interleavings at every access, allocator call and lock operation are explored, merged on an exact, address-canonical key of the unit's heap; every instrumented access is checked against the ASan shadow so a read of a freed bin table is reported.",
   "Script lengths bounded (2 threads x 2 ops, 3 threads x 1 op in quick); sequentially consistent scheduler; element read-modify-write by the harness is atomic; 64-bit fingerprints."),
 "C01": ("model_checking", "DESIGN.md §2 C01", "vp",
   "stateful exhaustive exploration of all interleavings of the real writer and reader code at memory-access granularity (TSan-ABI scheduling points, exact state key, no preemption bound)",
   "lib/ringbuffer.c is compiled with the ThreadSanitizer ABI and linked against a stub runtime, so every load/store it makes to the shared header and data mapping, every memcpy and every semaphore call is a scheduling point of a deterministic two-coroutine scheduler. For every combination of a writer script and a reader script (writes of several lengths incl. a full-size one, alloc+commit, read, read into a too-small buffer, peek+reclaim), with and without semaphore, at start positions where header and payload straddle the wrap point, on rings whose stale content equals the chunk marker, ALL interleavings are explored (merged on an exact state key) and judged against FIFO/exactly-once/untorn/refusal oracles, a final sequential drain, the semaphore count and the memory order of the marker accesses.",
   "Sequentially consistent scheduler (weak-memory reorderings of plain accesses are not explored; release/acquire of the marker accesses is asserted from the compiler-passed memory order); script lengths bounded (2x2, 3x1/3x2, 1x3/2x3); 64-bit state fingerprints; a coroutine's local state is taken to be a function of the values it read in the current call."),
 "C07": ("model_checking", "DESIGN.md §2 C07", "vp",
   "explicit enumeration of operation sequences on real rings restored from memory snapshots, from every/wrap-critical start position, against a deque model",
   "Real rings (five requested sizes around the page round-up, with and without semaphore, clean or pre-filled through the API with words equal to the ring's marker constants) are positioned at every word offset / all wrap-critical offsets; every operation sequence up to the stated depth over write, alloc+commit (11 lengths around 0 and S, two payloads), read, read into a too-small buffer, peek and reclaim is run and compared with a deque model; the must-accept rule of the capacity contract is checked on every write and refused operations must leave the complete ring image (header + data mapping) bit-identical.",
   "Depth-bounded (see params); sizes limited to the listed five; positions are reached by public API calls; the ring's mappings are learnt from the wrapped mmap, no private fields are read."),
 "C11": ("model_checking", "DESIGN.md §2 C11", "vp",
   "explicit enumeration of write sequences on real overwrite rings with a full drain of a snapshot after every write",
   "Real overwrite rings (three sizes, with/without semaphore, clean or pre-filled with marker-valued words) from wrap-critical and from every start position: every sequence of writes up to the stated depth over six lengths (tiny to exactly S) and two payloads; after every single write the ring image is saved, drained with qb_rb_chunk_read, compared with the newest-k suffix of the history (k >= 1 and k >= what the 16-byte-overhead rule guarantees) and restored.",
   "Depth-bounded; sizes limited to the listed three; the blackbox part (third run) logs short, mixed, 400-character, largest-possible (480 characters from a function with a 60-character name) and over-long records, dumps and prints the real blackbox after every record and requires an unbroken run of the newest records ending with the last one."),
 "C17": ("model_checking", "DESIGN.md §2 C17", "vp",
   "bounded-exhaustive enumeration of operation histories on the real hashtable/skiplist/trie against a dictionary + notifier-registration model (stateless explorer)",
   "Every history up to the stated depth (from the empty map and from 30 seeded non-initial maps) over put/rm on eight colliding keys, full/prefix iteration, abandoned foreach, notifier add/delete and destroy is executed on each real map implementation through qbmap.h only; return values, get of every key, count, iteration order/content and the exact multiset of notifier calls are compared with the model after every step; ASan is an additional oracle.",
   "Depth-bounded; key alphabet of 8 keys; skiplist node levels come from a wrapped random() (fixed per key, deviations explored up to 2); per-key notifiers judged only during the life of their entry; trie order = bytes compared as signed chars, a key before its extensions."),
 "C18": ("model_checking", "DESIGN.md §2 C18", "vp",
   "bounded-exhaustive enumeration of interleaved iterator and mutation histories on the real maps (stateless explorer, ASan + iteration/dictionary oracles)",
   "Every history up to the stated depth, from every seeded map, over put/rm of four keys and create/next/free of two simultaneously open iterators is executed on each real map; ASan catches any touch of freed memory, every finished iteration is checked for completeness/uniqueness, the value-release notifier must run exactly once per value, and once the iterators are gone the map must equal the dictionary of survivors. Further runs: the second iterator is a trie prefix iterator (it must only return keys with its prefix); skiplist levels as deviations; histories that start with iterators already parked on adjacent entries.",
   "Depth-bounded; two iterators; four keys; return values of rm/get are not judged while an iterator is open; the known-findings list is empty at present (five iterator defects were repaired), the cut mechanism for listed triggers stays in place."),
 "C20": ("model_checking", "DESIGN.md §2 C20", "vp",
   "bounded-exhaustive enumeration of operation histories on the real qb_hdb against a reference model (stateless explorer)",
   "Every history up to the stated depth over create/get/put/destroy/refcount_get/iterate on live, destroyed, reused-slot and never-issued handle values is executed on the real handle database and compared step by step with a slot/refcount model; ASan is an additional oracle.",
   "Depth and object count are bounded (see evidence params); random() is replaced by a deterministic sequence; single-threaded use."),
}

NOT_YET = "check not built yet in this round (see DESIGN.md §5 order of work)"

def main():
    checks = []
    for p in ALL:
        if p not in CLAIMED: continue
        lvl, ref, eng, tech, text, note = CLAIMED[p]
        checks.append({
            "property_id": p,
            "quick_cmd": "./check %s quick" % p,
            "thorough_cmd": "./check %s thorough" % p,
            "evidence_file": "/verif/evidence/%s.json" % p,
            "replay_cmd_template": "./check %s quick --replay {path}" % p,
            "engine": eng,
            "level_claimed": {"category": lvl, "text": text, "design_ref": ref},
            "level_note": note,
            "technique": tech,
        })
    extra_na = {}
    nap = os.path.join(ROOT, "tools", "not_applicable.json")
    if os.path.exists(nap): extra_na = json.load(open(nap))
    m = {
        "version": 1,
        "setup_cmd": "make -C /verif -j16 setup",
        "hooks": {
            "guard": "LIBQB_VERIF",
            "enable": "none needed: checks compile /repo/lib/*.c themselves (ASan / TSan-ABI instrumentation, ld --wrap); no source hooks exist",
            "baseline_off_cmd": "make -C /repo -j8 && make -C /repo/tests check",
            "source_commits": [],
            "add_only": True,
        },
        "engines": [
            {"name": "vp", "path": "/verif/engine",
             "serves_properties": sorted(CLAIMED),
             "kind_free_text": "stateless replay-based choice-tree explorer (deviation/preemption bounded, 16 forked workers, shared visited set), deterministic coroutine scheduler with TSan-ABI access-level scheduling points, ld --wrap environment (virtual clock, real kernel objects)"}
        ],
        "checks": checks,
        "notes": "All checks are bounded-exhaustive explorations of the real libqb code (no separate model). Known findings: /verif/known_findings.json.",
        "not_applicable": [{"property_id": p, "reason": extra_na.get(p, NOT_YET)} for p in ALL if p not in CLAIMED],
    }
    with open(os.path.join(ROOT, "MANIFEST.json"), "w") as f:
        json.dump(m, f, indent=1)
    try:
        import jsonschema
        jsonschema.validate(m, json.load(open("/root/.vp/MANIFEST.schema.json")))
        print("MANIFEST.json valid,", len(checks), "checks")
    except ImportError:
        print("MANIFEST.json written (jsonschema not available to validate)")

if __name__ == "__main__":
    main()
