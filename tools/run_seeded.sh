#!/bin/bash
# run_seeded.sh [tier] [id...]: run the property's check against every seeded change (scratch trees, nothing in /repo is touched)
# and write seeded/RESULTS.txt: <id> <exit code of the check> <first violation message>
TIER=${1:-quick}; shift
cd /verif
ids=${@:-$(ls seeded | grep -E '^C[0-9]+-m[0-9]+$')}
for id in $ids; do
	prop=${id%%-*}
	out=$(CACHE=1 LINES_OUT=40 tools/try_mutant.sh seeded/$id/patch.diff $prop $TIER 2>&1)
	rc=$(echo "$out" | sed -n 's/^check exit code: //p')
	msg=$(echo "$out" | grep -m1 -A1 "^VIOLATION" | tail -1 | cut -c1-160)
	echo "$id $TIER exit=$rc $msg"
done | tee seeded/RESULTS.$TIER.txt
