#!/bin/sh
# mk_worktree.sh <dir>: scratch git worktree of /repo (HEAD) with a configured, built tree; remove with
#   git -C /repo worktree remove --force <dir>
set -e
d=$1
git -C /repo worktree add --detach "$d" HEAD >/dev/null 2>&1
cd /repo
# bring the generated autotools files (not objects) so that configure can simply be re-run
for f in configure aclocal.m4 Makefile.in build-aux .version .tarball-version; do [ -e "$f" ] && cp -a "$f" "$d/" ; done
find . -name Makefile.in -not -path './.git/*' | while read f; do cp -a "$f" "$d/$f"; done
[ -e include/config.h.in ] && cp -a include/config.h.in "$d/include/"
cd "$d" && ./configure >/dev/null 2>&1 && make -j8 >/dev/null 2>&1 && make -C tests -j8 check TESTS= >/dev/null 2>&1
echo "ready: $d"
