#!/usr/bin/env python3
"""Rewrites the seeded-changes table in DESIGN.md (between the SEEDED-TABLE markers) from seeded/*/meta.json."""
import json, glob, os, re
ROOT = os.path.dirname(os.path.dirname(os.path.abspath(__file__)))
rows = []
for f in sorted(glob.glob(os.path.join(ROOT, "seeded", "*", "meta.json"))):
    m = json.load(open(f))
    c = m.get("check", {})
    msg = c.get("message", "")
    ext = ""
    mm = re.match(r"\((after [^)]*|replacement[^)]*|rebased[^)]*)\)\s*(.*)", msg)
    if mm: ext, msg = mm.group(1), mm.group(2)
    title = re.sub(r"^C\d\d\s*/\s*m\d\s*[-—:]+\s*", "", m.get("title", "")).strip()
    title = re.sub(r"^m\d\s*[-—:]+\s*", "", title)
    rows.append("| %s | %s | %s | %s | %s |" % (m["id"], ", ".join(os.path.basename(x) for x in m.get("files", [])), title[:110].replace("|", "/"),
                                              ("caught (%s)" % c.get("tier", "quick")) if c.get("exit_code") == 1 else "NOT caught", (msg[:100] + (" — " + ext if ext else "")).replace("|", "/")))
table = "| id | file | change | check | what the check reports |\n|---|---|---|---|---|\n" + "\n".join(rows) + "\n"
p = os.path.join(ROOT, "DESIGN.md"); s = open(p).read()
a, b = "<!-- SEEDED-TABLE-BEGIN -->\n", "<!-- SEEDED-TABLE-END -->"
if a in s: s = s[:s.index(a) + len(a)] + table + s[s.index(b):]
else: print("markers not found"); raise SystemExit(1)
open(p, "w").write(s); print(len(rows), "rows")
