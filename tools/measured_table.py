#!/usr/bin/env python3
"""Rewrites the measured-runs table in DESIGN.md (between the MEASURED markers) from evidence/*.json (quick tier)
and, if present, evidence_thorough/*.json (copies of the evidence written by thorough runs)."""
import json, glob, os
ROOT = os.path.dirname(os.path.dirname(os.path.abspath(__file__)))
def rows(d, tier):
    out = []
    for f in sorted(glob.glob(os.path.join(ROOT, d, "C*.json"))):
        e = json.load(open(f))
        if e.get("tier") != tier: continue
        c = e["coverage"]
        hs = c.get("harnesses", [])
        out.append("| %s | %s | %.0f s | %s | %s | %s | %s |" % (e["property_id"], tier, e.get("wall_s", 0), "{:,}".format(c["evaluations"]), "{:,}".format(c.get("states", 0)),
                   " / ".join(str(h.get("distinct_nontrivial", "")) for h in hs), "yes" if c.get("exhaustive") else "cut by the deadline: " + ", ".join(h["harness"].split("[")[1].rstrip("]") for h in hs if not h.get("exhaustive"))))
    return out
t = "| id | tier | wall | executions | distinct states | distinct outcomes per run | exhaustive |\n|---|---|---|---|---|---|---|\n" + "\n".join(rows("evidence", "quick") + rows("evidence_thorough", "thorough")) + "\n"
p = os.path.join(ROOT, "DESIGN.md"); s = open(p).read()
a, b = "<!-- MEASURED-BEGIN -->\n", "<!-- MEASURED-END -->"
s = s[:s.index(a) + len(a)] + t + s[s.index(b):]
open(p, "w").write(s); print("ok")
