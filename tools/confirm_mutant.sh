#!/bin/bash
# confirm_mutant.sh <Cxx> <mN>: in the scratch worktree /tmp/wt_<Cxx> confirm that the seeded change /tmp/mut/<Cxx>/<mN>.diff
# compiles, passes the repository's suite, and that its demonstration fails with it and passes without it.
# Writes /tmp/mut/<Cxx>/<mN>_confirm.txt
ID=$1; M=$2; WT=/tmp/wt_$ID; D=${MUTDIR:-/tmp/mut}/$ID; OUT=$D/${M}_confirm.txt
demo() {  # $1 = tag
	if [ -f $D/${M}_demo.sh ]; then (cd $D && bash ./${M}_demo.sh $WT) > $D/${M}_demo_$1.out 2>&1; echo $?
	else (cd $D && gcc -g -O0 -I$WT/include -I$WT/lib ${M}_demo.c $WT/lib/.libs/libqb.a -lpthread -ldl -lrt -o ${M}_demo.bin 2>&1 && ./${M}_demo.bin) > $D/${M}_demo_$1.out 2>&1; echo $?
	fi
}
{
cd $WT || exit 9
git reset -q --hard ; git checkout -q --detach $(git -C /repo rev-parse HEAD); git apply $D/$M.diff 2>/dev/null || git apply -3 $D/$M.diff || { echo "APPLY FAILED"; exit 3; }
make -j4 > $D/${M}_build.log 2>&1; echo "build rc=$?"
grep -c "warning:" $D/${M}_build.log | sed 's/^/warnings in build log: /'
make -C tests check > $D/${M}_suite.log 2>&1; echo "suite rc=$?"
grep -E "^# (TOTAL|PASS|FAIL|ERROR)" $D/${M}_suite.log | tr '\n' ' '; echo
echo "demo on modified: exit $(demo mod)"; tail -2 $D/${M}_demo_mod.out
git reset -q --hard ; make -j4 > /dev/null 2>&1
echo "demo on unmodified: exit $(demo orig)"; tail -2 $D/${M}_demo_orig.out
} > $OUT 2>&1
echo "$ID $M done"
