#!/usr/bin/env python3
"""Collect confirmed seeded changes from the scratch area (/tmp/mut/<Cxx>/mN*) into /verif/seeded/<Cxx>-mN/.
A change is kept only if: it applies, the repository suite passed 11/11 with it, its demonstration exits 1 with the change
and 0 without it.  Run after tools/confirm_mutant.sh.  usage: mk_seeded.py [results.txt]"""
import os, re, json, shutil, sys, glob
MUT = os.environ.get("MUTDIR", "/tmp/mut"); OUT = "/verif/seeded"
res = {}
for l in open(sys.argv[1] if len(sys.argv) > 1 else MUT + "/results.txt"):
    m = re.match(r"(C\d\d) (m\d) (\w+) rc=(\d+)\s*(.*)", l)
    if m: res[(m.group(1), m.group(2))] = {"tier": m.group(3), "exit_code": int(m.group(4)), "message": m.group(5).strip()}
resuite = {}
if os.path.exists(MUT + "/resuite_results.txt"):
    for l in open(MUT + "/resuite_results.txt"):
        m = re.match(r"(C\d\d) (m\d) suite2 rc=(\d+) (.*)", l)
        if m: resuite[(m.group(1), m.group(2))] = (int(m.group(3)), m.group(4).strip())
# second-round changes that turned out to be the same edit as a first-round change for the same property are not kept twice
DUP = {("C05", "m3"): "C05-m1", ("C06", "m3"): "C06-m1", ("C06", "m4"): "C06-m2", ("C17", "m3"): "C17-m2", ("C18", "m3"): "C18-m1",
       # fourth round: the same edit as an earlier change for the same property
       ("C01", "m7"): "C01-m3", ("C02", "m8"): "C02-m3", ("C03", "m7"): "C03-m4", ("C04", "m7"): "C04-m3", ("C05", "m8"): "C05-m5",
       ("C06", "m7"): "C06-m1", ("C07", "m7"): "C07-m1", ("C07", "m8"): "C07-m3", ("C14", "m7"): "C14-m3", ("C17", "m7"): "C17-m5",
       ("C18", "m7"): "C18-m4", ("C20", "m7"): "C20-m4", ("C20", "m8"): "C20-m5"}
kept, dropped = [], []
for d in sorted(glob.glob(MUT + "/C[0-9][0-9]")):
    pid = os.path.basename(d)
    for mn in ("m1", "m2", "m3", "m4", "m5", "m6", "m7", "m8"):
        conf = os.path.join(d, mn + "_confirm.txt")
        if not os.path.exists(conf): continue
        if (pid, mn) in DUP: dropped.append((pid, mn, "same edit as " + DUP[(pid, mn)])); continue
        t = open(conf).read()
        suite_ok = "# TOTAL: 11 # PASS:  11" in t
        note = ""
        if not suite_ok and resuite.get((pid, mn), (1, ""))[0] == 0 and "PASS:  11" in resuite[(pid, mn)][1]:
            suite_ok = True; note = "first suite run failed in ipc.test under heavy machine load; a re-run on a quieter machine passed 11/11"
        dm = re.search(r"demo on modified: exit (\d+)\n(.*?)\ndemo on unmodified: exit (\d+)\n(.*)", t, re.S)
        if not dm: dropped.append((pid, mn, "no demo result")); continue
        ok = suite_ok and dm.group(1) == "1" and dm.group(3) == "0"
        if not ok: dropped.append((pid, mn, "suite_ok=%s demo=%s/%s" % (suite_ok, dm.group(1), dm.group(3)))); continue
        o = os.path.join(OUT, "%s-%s" % (pid, mn)); os.makedirs(o, exist_ok=True)
        shutil.copy(os.path.join(d, mn + ".diff"), os.path.join(o, "patch.diff"))
        for f in glob.glob(os.path.join(d, mn + "_demo.*")):
            if f.endswith((".c", ".sh")): shutil.copy(f, os.path.join(o, os.path.basename(f).replace(mn + "_", "")))
        if os.path.exists(os.path.join(d, mn + "_notes.md")): shutil.copy(os.path.join(d, mn + "_notes.md"), os.path.join(o, "notes.md"))
        files = re.findall(r"^diff --git a/(\S+)", open(os.path.join(o, "patch.diff")).read(), re.M)
        title = ""
        if os.path.exists(os.path.join(o, "notes.md")):
            for l in open(os.path.join(o, "notes.md")):
                if l.strip(): title = l.strip().lstrip("# ").strip(); break
        meta = {"id": "%s-%s" % (pid, mn), "property": pid, "title": title, "files": files,
                "origin": "fresh sub-agent that saw only the property text and a scratch worktree" + (" (second round: less obvious places asked for)" if mn in ("m3", "m4") else " (third round)" if mn in ("m5", "m6") else " (fourth round)" if mn in ("m7", "m8") else ""),
                "suite": "11/11 PASS with the change applied" + (" (" + note + ")" if note else ""),
                "demonstration": {"with_change": {"exit": 1, "output": dm.group(2).strip().splitlines()[-1] if dm.group(2).strip() else ""},
                                  "without_change": {"exit": 0, "output": dm.group(4).strip().splitlines()[-1] if dm.group(4).strip() else ""},
                                  "how": "demo.sh <library tree> if present, else: gcc -I<tree>/include -I<tree>/lib demo.c <tree>/lib/.libs/libqb.a -lpthread -ldl -lrt"},
                "check": dict(res.get((pid, mn), {}), command="tools/try_mutant.sh seeded/%s-%s/patch.diff %s quick" % (pid, mn, pid))}
        json.dump(meta, open(os.path.join(o, "meta.json"), "w"), indent=1)
        kept.append((pid, mn, res.get((pid, mn), {}).get("exit_code")))
print("kept:", len(kept)); [print(" ", *k) for k in kept]
print("dropped:", len(dropped)); [print(" ", *k) for k in dropped]
