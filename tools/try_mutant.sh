#!/bin/bash
# usage: tools/try_mutant.sh <patch.diff> <property> [tier] [extra check args]
# Runs ./check for one property against a scratch worktree of /repo (HEAD + working-tree state is NOT
# used: HEAD only) with the patch applied, using a scratch copy of /verif, so neither /repo nor
# /verif/build is disturbed and several can run side by side.  Everything is removed afterwards.
# (Equivalent to: git -C /repo apply <patch>; ./check ...; git -C /repo checkout -- .)
set -u
P=$(readlink -f "$1"); PROP=$2; TIER=${3:-quick}; shift; shift; shift || true
if [ -n "${CACHE:-}" ]; then
	# one persistent scratch pair (worktree + copy of /verif with its build directory): only what the patch touches is recompiled.
	# Not for parallel use.  Remove with: git -C /repo worktree remove --force /tmp/vpmut-cache/repo; rm -rf /tmp/vpmut-cache
	T=/tmp/vpmut-cache; KEEP=1
	if [ ! -d "$T/repo" ]; then mkdir -p "$T"; git -C /repo worktree add --detach "$T/repo" HEAD >/dev/null 2>&1 || { echo "worktree failed"; exit 3; }; fi
	git -C "$T/repo" checkout -q -- . ; git -C "$T/repo" checkout -q --detach "$(git -C /repo rev-parse HEAD)"
	mkdir -p "$T/verif"
else
T=$(mktemp -d /tmp/vpmut.XXXXXX)
git -C /repo worktree add --detach "$T/repo" HEAD >/dev/null 2>&1 || { echo "worktree failed"; exit 3; }
fi
cleanup() { if [ -n "${CACHE:-}" ]; then git -C "$T/repo" checkout -q -- . ; return; fi; if [ -n "${KEEP:-}" ]; then echo "kept: $T"; return; fi; git -C /repo worktree remove --force "$T/repo" >/dev/null 2>&1; rm -rf "$T"; }
trap cleanup EXIT
for f in include/config.h include/qb/qbconfig.h; do [ -e /repo/$f ] && cp /repo/$f "$T/repo/$f"; done
git -C "$T/repo" apply "$P" || { echo "patch does not apply"; exit 3; }
mkdir -p "$T/verif" && (cd /verif && tar cf - --exclude=./build --exclude=./.git --exclude=./replays --exclude=./evidence .) | tar xf - -C "$T/verif"
cd "$T/verif" && REPO="$T/repo" ./check $PROP $TIER "$@" 2>&1 | sed "s#$T/verif#/verif#g" | cut -c1-600 | tail -${LINES_OUT:-12}
rc=${PIPESTATUS[0]}
if [ -n "${KEEP_REPLAYS:-}" ]; then mkdir -p "$KEEP_REPLAYS"; cp -r "$T/verif/replays/$PROP/." "$KEEP_REPLAYS/" 2>/dev/null; fi
echo "check exit code: $rc"
exit $rc
