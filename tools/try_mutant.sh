#!/bin/bash
# usage: tools/try_mutant.sh <patch.diff> <property> [tier]   -- applies a patch to /repo, runs the check, reverts
set -u
P=$1; PROP=$2; TIER=${3:-quick}
git -C /repo apply "$P" || { echo "patch does not apply"; exit 3; }
cd /verif && ./check $PROP $TIER 2>&1 | cut -c1-400 | tail -${LINES_OUT:-8}
rc=${PIPESTATUS[0]}
git -C /repo checkout -- . 
echo "check exit code: $rc"
exit $rc
