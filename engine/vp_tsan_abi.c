/* A stand-in for the ThreadSanitizer runtime: translation units compiled with -fsanitize=thread call
 * these entry points before every memory access; here each call is a scheduling point of the
 * coroutine scheduler (DESIGN.md §1.1).  Also the allocator / memcpy redirections of such units. */
#define _GNU_SOURCE
#include "vp_sched.h"
#include <stdlib.h>
#include <string.h>
#include <stdint.h>

#if defined(__has_feature)
# if __has_feature(address_sanitizer)
int __asan_address_is_poisoned(void const volatile *addr);
void *__asan_region_is_poisoned(void *beg, size_t size);
#  define CHECK_ADDR(a, n) do { if (__asan_region_is_poisoned((void *)(a), (n))) \
	vp_fail("instrumented unit accesses freed or out-of-bounds memory (%d bytes at %p)", (int)(n), (void *)(a)); } while (0)
# endif
#endif
#ifndef CHECK_ADDR
# define CHECK_ADDR(a, n) do { } while (0)
#endif

void __tsan_init(void) {}
void __tsan_func_entry(void *pc) { (void)pc; }
void __tsan_func_exit(void) {}
void __tsan_vptr_update(void **vptr_p, void *new_val) { (void)vptr_p; (void)new_val; }

#define RW(n) \
void __tsan_read##n(void *a) { CHECK_ADDR(a, n); vp_access(a, n, 0); } \
void __tsan_write##n(void *a) { CHECK_ADDR(a, n); vp_access(a, n, 1); } \
void __tsan_unaligned_read##n(void *a) { CHECK_ADDR(a, n); vp_access(a, n, 0); } \
void __tsan_unaligned_write##n(void *a) { CHECK_ADDR(a, n); vp_access(a, n, 1); }
RW(1) RW(2) RW(4) RW(8) RW(16)
void __tsan_read_range(void *a, unsigned long n) { CHECK_ADDR(a, n); vp_access(a, n > 8 ? 8 : (int)n, 0); }
void __tsan_write_range(void *a, unsigned long n) { CHECK_ADDR(a, n); vp_access(a, n > 8 ? 8 : (int)n, 1); }

#define ATOMICS(bits, T) \
T __tsan_atomic##bits##_load(const volatile T *a, int mo) { \
	CHECK_ADDR(a, sizeof(T)); if (vp_atomic_hook) vp_atomic_hook(a, 0, mo); vp_access(a, sizeof(T), 0); return *a; } \
void __tsan_atomic##bits##_store(volatile T *a, T v, int mo) { \
	CHECK_ADDR(a, sizeof(T)); if (vp_atomic_hook) vp_atomic_hook(a, 1, mo); vp_access(a, sizeof(T), 1); *a = v; } \
T __tsan_atomic##bits##_exchange(volatile T *a, T v, int mo) { T o; (void)mo; CHECK_ADDR(a, sizeof(T)); vp_access(a, sizeof(T), 1); o = *a; *a = v; vp_local_mix((uint64_t)o); return o; } \
T __tsan_atomic##bits##_fetch_add(volatile T *a, T v, int mo) { T o; (void)mo; CHECK_ADDR(a, sizeof(T)); vp_access(a, sizeof(T), 1); o = *a; *a = o + v; vp_local_mix((uint64_t)o); return o; } \
T __tsan_atomic##bits##_fetch_sub(volatile T *a, T v, int mo) { T o; (void)mo; CHECK_ADDR(a, sizeof(T)); vp_access(a, sizeof(T), 1); o = *a; *a = o - v; vp_local_mix((uint64_t)o); return o; } \
T __tsan_atomic##bits##_fetch_and(volatile T *a, T v, int mo) { T o; (void)mo; CHECK_ADDR(a, sizeof(T)); vp_access(a, sizeof(T), 1); o = *a; *a = o & v; vp_local_mix((uint64_t)o); return o; } \
T __tsan_atomic##bits##_fetch_or(volatile T *a, T v, int mo) { T o; (void)mo; CHECK_ADDR(a, sizeof(T)); vp_access(a, sizeof(T), 1); o = *a; *a = o | v; vp_local_mix((uint64_t)o); return o; } \
T __tsan_atomic##bits##_fetch_xor(volatile T *a, T v, int mo) { T o; (void)mo; CHECK_ADDR(a, sizeof(T)); vp_access(a, sizeof(T), 1); o = *a; *a = o ^ v; vp_local_mix((uint64_t)o); return o; } \
int __tsan_atomic##bits##_compare_exchange_strong(volatile T *a, T *c, T v, int mo, int fmo) { \
	(void)mo; (void)fmo; CHECK_ADDR(a, sizeof(T)); vp_access(a, sizeof(T), 1); \
	if (*a == *c) { *a = v; vp_local_mix(1); return 1; } *c = *a; vp_local_mix((uint64_t)*c * 2); return 0; } \
int __tsan_atomic##bits##_compare_exchange_weak(volatile T *a, T *c, T v, int mo, int fmo) { \
	return __tsan_atomic##bits##_compare_exchange_strong(a, c, v, mo, fmo); } \
T __tsan_atomic##bits##_compare_exchange_val(volatile T *a, T c, T v, int mo, int fmo) { \
	T o; (void)mo; (void)fmo; CHECK_ADDR(a, sizeof(T)); vp_access(a, sizeof(T), 1); o = *a; if (o == c) *a = v; vp_local_mix((uint64_t)o); return o; }
ATOMICS(8, uint8_t) ATOMICS(16, uint16_t) ATOMICS(32, uint32_t) ATOMICS(64, uint64_t)
void __tsan_atomic_thread_fence(int mo) { (void)mo; vp_point("fence"); }
void __tsan_atomic_signal_fence(int mo) { (void)mo; }

/* ---- redirected libc of instrumented units ---- */
int vp_memcpy_split;   /* 1: a scheduling point in the middle of every copy as well */
void *vp_memcpy(void *d, const void *s, size_t n)
{
	if (n) { CHECK_ADDR(d, n); CHECK_ADDR(s, n); }
	vp_point("memcpy");
	if (vp_memcpy_split && n >= 8) {
		size_t h = (n / 2) & ~(size_t)3;
		memcpy(d, s, h);
		vp_local_mix(vp_hash(s, h, 11));
		vp_point("memcpy-mid");
		memcpy((char *)d + h, (const char *)s + h, n - h);
		vp_local_mix(vp_hash((const char *)s + h, n - h, 12));
	} else {
		memcpy(d, s, n);
		vp_local_mix(vp_hash(s, n, 11));
	}
	return d;
}
void *vp_memset(void *d, int c, size_t n)
{
	if (n) CHECK_ADDR(d, n);
	vp_point("memset");
	return memset(d, c, n);
}
/* heap of the instrumented unit: tracked so that a harness can fingerprint it (vp_heap_hash) */
#define MAXBLK 4096
static struct { void *p; size_t n; int id; } BLK[MAXBLK];
static int nblk, blk_seq;
void vp_heap_reset(void) { nblk = 0; blk_seq = 0; }
static void blk_add(void *p, size_t n) { if (!p) return; if (nblk >= MAXBLK) vp_broken("too many heap blocks"); BLK[nblk].p = p; BLK[nblk].n = n; BLK[nblk].id = ++blk_seq; nblk++; }
static void blk_del(void *p) { int i; if (!p) return; for (i = 0; i < nblk; i++) if (BLK[i].p == p) { BLK[i] = BLK[--nblk]; return; } }
/* address-independent form of a word: pointers into tracked blocks become (block number, offset); other
 * values that look like user-space pointers (objects created once per execution outside the unit) become a constant */
uint64_t vp_heap_canon(uint64_t v)
{
	int i;
	if (v < 0x10000) return v;
	for (i = 0; i < nblk; i++)
		if (v >= (uint64_t)(uintptr_t)BLK[i].p && v <= (uint64_t)(uintptr_t)BLK[i].p + BLK[i].n)
			return 0xB10C000000000000ULL | ((uint64_t)BLK[i].id << 24) | (v - (uint64_t)(uintptr_t)BLK[i].p);
	if (v >= 0x100000000000ULL && v < 0x800000000000ULL) return 0xF0F0F0F0ULL;
	return v;
}
uint64_t vp_heap_hash(void)
{
	uint64_t k = 0;
	int i;
	for (i = 0; i < nblk; i++) {
		uint64_t one = vp_hash(&BLK[i].n, sizeof(size_t), (uint64_t)BLK[i].id);
		size_t off;
		for (off = 0; off + 8 <= BLK[i].n; off += 8) {
			uint64_t w;
			memcpy(&w, (char *)BLK[i].p + off, 8);
			if (w) { w = vp_heap_canon(w); one = vp_hash(&w, 8, one ^ off); }
		}
		if (off < BLK[i].n) one = vp_hash((char *)BLK[i].p + off, BLK[i].n - off, one);
		k += one * 0x9e3779b97f4a7c15ULL;      /* order of the table is irrelevant: ids identify blocks */
	}
	return k ^ (uint64_t)nblk;
}
void *vp_malloc(size_t n) { void *p; vp_point("malloc"); p = malloc(n); blk_add(p, n); return p; }
void *vp_calloc(size_t a, size_t b) { void *p; vp_point("calloc"); p = calloc(a, b); blk_add(p, a * b); return p; }
void *vp_realloc(void *p, size_t n) { void *q; vp_point("realloc"); q = realloc(p, n); if (q) { blk_del(p); blk_add(q, n); } return q; }
void vp_free(void *p) { vp_point("free"); blk_del(p); free(p); }
