/* Deterministic coroutine scheduler on top of the choice-tree explorer (DESIGN.md §1.3). */
#ifndef VP_SCHED_H
#define VP_SCHED_H
#include "vp.h"

#define VP_MAXCO 8

void vp_sched_reset(void);                                   /* start of every execution */
int  vp_co_spawn(void (*fn)(void *), void *arg, const char *name);
int  vp_co_run(void);                                        /* run to completion; 0 ok, 1 execution cut (state merged / pruned) */
int  vp_co_self(void);                                       /* -1 outside coroutines */
int  vp_co_done(int id);
int  vp_co_others_idle(void);                                /* every other coroutine is blocked or finished */
const char *vp_co_name(int id);
void vp_point(const char *tag);                              /* scheduling point */
void vp_yield_free(const char *tag);                         /* voluntary yield: switching costs nothing */
void vp_block(int (*ready)(void *), void *arg, const char *what);
void vp_co_abort(void);
void vp_co_exit(void);                                       /* the running coroutine ends here */
void vp_co_kill(int id);                                     /* coroutine id is never resumed again */
extern int (*vp_idle_hook)(void);
extern void (*vp_switch_hook)(int from, int to);                                      /* cut this execution from inside a coroutine */

/* local-state tracking for state keys: everything a coroutine has read since its last call boundary */
void vp_local_mix(uint64_t v);
void vp_local_reset(uint64_t pc);
uint64_t vp_local_hash(int id);
/* if set, every scheduling point beyond the replayed prefix computes fn() and the execution is cut when the
 * (global state, all local states, blocked/done flags) key was seen before */
void vp_set_state_fn(uint64_t (*fn)(void));
extern int vp_sched_active;
extern int vp_sync_points;
extern int vp_free_yield_cost;
extern int vp_blocked_switch_cost;
extern size_t vp_stack_size;                                 /* coroutine stack size (<= 1 MiB), default 256 KiB */

/* optional: address-independent form of an 8-byte value a coroutine read (pointers) */
extern uint64_t (*vp_value_canon)(uint64_t v);
/* hooks the TSan-ABI runtime calls (vp_tsan_abi.c) */
void vp_access(const volatile void *addr, int size, int is_write);
/* harness hook: called for every atomic access with its memory order (may be NULL) */
extern void (*vp_atomic_hook)(const volatile void *addr, int is_store, int mo);
/* harness hook: return 0 to make an access invisible (immutable data) */
extern int (*vp_access_filter)(const volatile void *addr, int size, int is_write);

/* heap of TSan-ABI instrumented units */
void vp_heap_reset(void);
uint64_t vp_heap_hash(void);
uint64_t vp_heap_canon(uint64_t word);

/* wrapped pthread objects */
void vp_sync_reset(void);

#endif
