/*
 * vp: stateless, replay-based, bounded-exhaustive choice-tree explorer.
 *
 * A harness funnels all its nondeterminism through vp_choose/vp_env/vp_cost_choose
 * and implements one function that performs ONE execution on the real libqb
 * code.  The engine enumerates every answer sequence (within the deviation
 * bound), partitions the tree over worker processes, runs executions in forked
 * children so that crashes are attributed to exactly one answer sequence,
 * confirms every failure by replaying it twice, and writes evidence.
 */
#ifndef VP_H
#define VP_H
#include <stdint.h>
#include <stddef.h>
#include <stdarg.h>

#define VP_MAXLEN 4096

struct vp_harness {
	const char *property;       /* "C20" */
	const char *name;           /* "c20_hdb" */
	const char *level;          /* evidence level */
	void (*run)(void);          /* one execution */
	void (*init)(void);         /* once in the main process after argument parsing: read vp_param()s here */
	void (*setup)(void);        /* once per worker process, before any execution (may be NULL) */
	int batch;                  /* executions per forked child (1 = isolated) */
	int private_shm;            /* each worker gets a private tmpfs on /dev/shm */
	int timeout_s;              /* wall clock watchdog per child batch (default 20) */
	const char *rule;           /* evidence: what is enumerated / what counts as distinct */
	const char *assumptions[12];/* evidence: trusted base */
};

/* --- choices ----------------------------------------------------------- */
int vp_choose(int n, const char *tag);              /* free choice, 0..n-1 */
int vp_env(int n, const char *tag);                 /* answer 0 default, others cost 1 deviation */
int vp_cost_choose(int n, int cost_nonzero, const char *tag);

/* --- verdicts ----------------------------------------------------------- */
void vp_fail(const char *fmt, ...) __attribute__((noreturn, format(printf, 1, 2)));
void vp_pruned(void);                               /* execution is cut here (harness returns itself) */
int  vp_known(const char *trigger);                 /* 1 if a listed known finding with this trigger is active */
void vp_broken(const char *fmt, ...) __attribute__((noreturn, format(printf, 1, 2)));

/* --- observation -------------------------------------------------------- */
extern int vp_tracing;
void vp_logf(const char *fmt, ...) __attribute__((format(printf, 1, 2)));
#define vp_log(...) do { if (vp_tracing) vp_logf(__VA_ARGS__); } while (0)
void vp_outcome(const void *p, size_t n);           /* mixed into this execution's outcome hash */
void vp_outcome_u64(uint64_t v);
void vp_state(uint64_t key);                        /* counts a distinct (model) state */
int  vp_visited(uint64_t key);                      /* 1 = seen before (prune), 0 = first visit (inserted) */
uint64_t vp_hash(const void *p, size_t n, uint64_t seed);
void vp_count(int idx, uint64_t add);               /* user counters 0..15 */
void vp_count_name(int idx, const char *name);

/* --- parameters --------------------------------------------------------- */
int  vp_tier(void);                                 /* 0 quick, 1 thorough */
long vp_param(const char *name, long quick_default, long thorough_default);
int  vp_is_replay(void);
int  vp_worker_id(void);
int  vp_depth(void);                                /* number of choices taken so far in this execution */
int  vp_cost_spent(void);
int  vp_replaying(void);                             /* still inside the forced prefix of this execution */
int  vp_bound(void);

int vp_main(int argc, char **argv, const struct vp_harness *h);

#endif
