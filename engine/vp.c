/* vp: choice-tree explorer (see vp.h and DESIGN.md §1.2) */
#define _GNU_SOURCE
#include "vp.h"
#include <stdio.h>
#include <stdlib.h>
#include <string.h>
#include <errno.h>
#include <unistd.h>
#include <signal.h>
#include <sched.h>
#include <fcntl.h>
#include <time.h>
#include <sys/mman.h>
#include <sys/mount.h>
#include <sys/wait.h>
#include <sys/syscall.h>
#include <sys/stat.h>
#include <sys/resource.h>

#define MAXW 32
#define MAXITEMS 8192
#define ITEMLEN 48
#define MAXVIOL 6
#define MAXSAMPLES 5
#define MAXKNOWN 16
#define EXIT_FAIL 3
#define EXIT_BROKEN 4
#define EXIT_SAN 88
#define TRACE_MAX (1 << 17)

struct slot {
	int len, plan_len, forced;
	uint16_t plan[VP_MAXLEN];
	uint16_t choice[VP_MAXLEN], arity[VP_MAXLEN];
	uint8_t costnz[VP_MAXLEN];
	int done, failed, pruned, broken, in_exec;
	uint64_t outcome;
	uint64_t execs_in_child;
	char msg[4096];
	int trace_len;
	char trace[TRACE_MAX];
	int have_sample, sample_len;
	uint16_t sample[VP_MAXLEN];
};

struct item { int len; uint16_t c[ITEMLEN]; };
struct viol { int len; uint16_t c[VP_MAXLEN]; char msg[4096]; int worker; };

struct shared {
	uint64_t execs, transitions, pruned, merged, nfail, maxlen, states, outcomes;
	uint64_t user[16];
	int stop, deadline_hit, broken, table_full, nconfirmed;
	int known_active[MAXKNOWN];
	char broken_msg[1024];
	int nitems, next_item;
	struct item items[MAXITEMS];
	int nviol;
	struct viol viol[MAXVIOL];
	struct slot slots[MAXW + 2];
};

static struct shared *S;
static uint64_t *T_states, *T_outcomes;
static uint64_t T_states_mask, T_outcomes_mask;
static const struct vp_harness *H;
static struct slot *me;
static int my_id;
static int g_tier, g_workers = 16, g_bound = -1, g_replay;
static double g_deadline_s;
static double g_t0;
static char g_evidence[512], g_replay_file[512];
static char *g_setk[64]; static long g_setv[64]; static int g_nset;
static struct { char trig[64]; char file[512]; char what[512]; int active; } g_known[MAXKNOWN];
static int g_nknown;
static const char *g_user_names[16];
static char g_params_used[2048];
int vp_tracing;
static int g_single;
static uint16_t g_replay_seq[VP_MAXLEN];
static int g_replay_n;

static double now_s(void)
{
	struct timespec ts;
	syscall(SYS_clock_gettime, CLOCK_MONOTONIC, &ts);
	return ts.tv_sec + ts.tv_nsec / 1e9;
}

uint64_t vp_hash(const void *p, size_t n, uint64_t seed)
{
	const unsigned char *b = p;
	uint64_t h = seed ^ 0xcbf29ce484222325ULL;
	size_t i;
	for (i = 0; i + 8 <= n; i += 8) {
		uint64_t w;
		memcpy(&w, b + i, 8);
		h ^= w; h *= 0x100000001b3ULL; h ^= h >> 29; h *= 0xff51afd7ed558ccdULL;
	}
	for (; i < n; i++) { h ^= b[i]; h *= 0x100000001b3ULL; }
	h ^= h >> 32; h *= 0xc4ceb9fe1a85ec53ULL; h ^= h >> 29;
	return h;
}

/* lock-free insert; returns 1 if newly inserted */
static int table_insert(uint64_t *t, uint64_t mask, uint64_t key, uint64_t *counter)
{
	uint64_t i, probes = 0;
	if (key == 0) key = 1;
	for (i = key & mask;; i = (i + 1) & mask) {
		uint64_t cur = __atomic_load_n(&t[i], __ATOMIC_RELAXED);
		if (cur == key) return 0;
		if (cur == 0) {
			uint64_t exp = 0;
			if (__atomic_compare_exchange_n(&t[i], &exp, key, 0, __ATOMIC_RELAXED, __ATOMIC_RELAXED)) {
				uint64_t c = __atomic_add_fetch(counter, 1, __ATOMIC_RELAXED);
				if (c > (mask >> 1) + (mask >> 2)) { S->table_full = 1; S->stop = 1; }    /* 3/4 full: the exploration ends here (reported, not exhaustive) */
				return 1;
			}
			if (exp == key) return 0;
		}
		if (++probes > mask) { S->table_full = 1; S->stop = 1; return 1; }             /* never answer 'seen before' on a guess */
	}
}

/* sanitizer options are read before main(): compiled in.  Allocations above 1 GiB fail (NULL) instead of aborting,
   which is how harnesses provoke an out-of-memory answer */
const char *__asan_default_options(void);
const char *__asan_default_options(void)
{
	return "detect_leaks=0:abort_on_error=0:exitcode=88:allocator_may_return_null=1:max_allocation_size_mb=1024:detect_stack_use_after_return=0";
}

/* ---------------------------------------------------------------- choices */
int vp_cost_choose(int n, int costnz, const char *tag)
{
	int i = me->len, c = 0;
	(void)tag;
	if (n <= 0) vp_broken("vp_choose(%d) at %d tag %s", n, i, tag);
	if (i >= VP_MAXLEN) {
		char pre[400]; int k, l = 0;
		for (k = 0; k < 60 && l < 380; k++) l += snprintf(pre + l, sizeof pre - l, "%d,", me->choice[k]);
		vp_broken("execution longer than VP_MAXLEN choices (tag %s); it starts with [%s...]", tag, pre);
	}
	if (n > 65535) vp_broken("arity too large");
	if (i < me->plan_len) {
		c = me->plan[i];
		if (c >= n)
			vp_broken("nondeterminism: replayed choice %d at position %d but arity is %d (tag %s)", c, i, n, tag);
	}
	me->choice[i] = (uint16_t)c;
	me->arity[i] = (uint16_t)n;
	me->costnz[i] = (uint8_t)costnz;
	me->len = i + 1;
	if (vp_tracing && n > 1) vp_logf("  [choice %d: %s = %d/%d]", i, tag, c, n);
	return c;
}
int vp_choose(int n, const char *tag) { return vp_cost_choose(n, 0, tag); }
int vp_env(int n, const char *tag) { return vp_cost_choose(n, 1, tag); }
int vp_depth(void) { return me->len; }
int vp_replaying(void) { return g_replay || g_single || me->len < me->plan_len; }
int vp_bound(void) { return g_bound; }
int vp_cost_spent(void)
{
	int i, c = 0;
	for (i = 0; i < me->len; i++) if (me->choice[i]) c += me->costnz[i];
	return c;
}

void vp_fail(const char *fmt, ...)
{
	va_list ap;
	va_start(ap, fmt);
	vsnprintf(me->msg, sizeof me->msg, fmt, ap);
	va_end(ap);
	me->failed = 1;
	if (vp_tracing) vp_logf("FAIL: %s", me->msg);
	_exit(EXIT_FAIL);
}
void vp_broken(const char *fmt, ...)
{
	va_list ap;
	va_start(ap, fmt);
	vsnprintf(me->msg, sizeof me->msg, fmt, ap);
	va_end(ap);
	me->broken = 1;
	_exit(EXIT_BROKEN);
}
void vp_pruned(void) { me->pruned = 1; }
int vp_known(const char *trigger)
{
	int i;
	for (i = 0; i < g_nknown; i++)
		if (g_known[i].active && !strcmp(g_known[i].trig, trigger)) return 1;
	return 0;
}
void vp_logf(const char *fmt, ...)
{
	va_list ap;
	int room = TRACE_MAX - me->trace_len - 2, n;
	if (room <= 0) return;
	va_start(ap, fmt);
	n = vsnprintf(me->trace + me->trace_len, room, fmt, ap);
	va_end(ap);
	if (n >= room) n = room - 1;
	me->trace_len += n;
	me->trace[me->trace_len++] = '\n';
	me->trace[me->trace_len] = 0;
}
void vp_outcome(const void *p, size_t n) { me->outcome = vp_hash(p, n, me->outcome); }
void vp_outcome_u64(uint64_t v) { me->outcome = vp_hash(&v, 8, me->outcome); }
void vp_state(uint64_t key) { table_insert(T_states, T_states_mask, key, &S->states); }
int vp_visited(uint64_t key)
{
	/* the deviations already spent matter only when a bound is in force */
	uint64_t k2[2] = { key, g_bound >= 0 ? (uint64_t)vp_cost_spent() : 0 };
	if (g_replay || g_single || me->len < me->plan_len) return 0;   /* never cut inside the replayed prefix / a single replay */
	if (table_insert(T_states, T_states_mask, vp_hash(k2, 16, 7), &S->states)) return 0;
	__atomic_add_fetch(&S->merged, 1, __ATOMIC_RELAXED);
	return 1;
}
void vp_count(int idx, uint64_t add) { __atomic_add_fetch(&S->user[idx & 15], add, __ATOMIC_RELAXED); }
void vp_count_name(int idx, const char *name) { g_user_names[idx & 15] = name; }
int vp_tier(void) { return g_tier; }
int vp_is_replay(void) { return g_replay; }
int vp_worker_id(void) { return my_id; }
long vp_param(const char *name, long q, long t)
{
	int i;
	long v = g_tier ? t : q;
	for (i = 0; i < g_nset; i++) if (!strcmp(g_setk[i], name)) v = g_setv[i];
	if (!strstr(g_params_used, name)) {
		size_t l = strlen(g_params_used);
		snprintf(g_params_used + l, sizeof g_params_used - l, "%s%s=%ld", l ? "," : "", name, v);
	}
	return v;
}

/* ------------------------------------------------------------- execution */
static void begin_exec(void)
{
	me->len = 0; me->failed = 0; me->pruned = 0; me->broken = 0;
	me->outcome = 0; me->msg[0] = 0; me->in_exec = 1;
	if (vp_tracing) { me->trace_len = 0; me->trace[0] = 0; }
}

/* advance the odometer; returns 0 when the subtree below 'forced' is exhausted */
static int advance(struct slot *s)
{
	int i, cost = 0, costb[VP_MAXLEN + 1];
	for (i = 0; i < s->len; i++) { costb[i] = cost; if (s->choice[i]) cost += s->costnz[i]; }
	for (i = s->len - 1; i >= s->forced; i--) {
		if (s->choice[i] + 1 >= s->arity[i]) continue;
		if (s->costnz[i] && s->choice[i] == 0 && g_bound >= 0 && costb[i] + s->costnz[i] > g_bound) continue;
		memcpy(s->plan, s->choice, sizeof(uint16_t) * i);
		s->plan[i] = s->choice[i] + 1;
		s->plan_len = i + 1;
		return 1;
	}
	s->done = 1;
	return 0;
}

static void account(struct slot *s)
{
	__atomic_add_fetch(&S->execs, 1, __ATOMIC_RELAXED);
	__atomic_add_fetch(&S->transitions, (uint64_t)(s->len - (s->plan_len > 0 ? s->plan_len - 1 : 0)), __ATOMIC_RELAXED);
	if ((uint64_t)s->len > S->maxlen) S->maxlen = s->len;
	if (s->pruned) __atomic_add_fetch(&S->pruned, 1, __ATOMIC_RELAXED);
	else table_insert(T_outcomes, T_outcomes_mask, s->outcome ^ 0x9e3779b97f4a7c15ULL, &S->outcomes);
}

static void child_loop(int batch)
{
	int n = 0;
	int to = H->timeout_s ? H->timeout_s : 20;
	if (g_replay || batch == 1) to *= 3;
	while (!me->done && n < batch && (!S->stop || g_single)) {
		if ((n & 31) == 0) alarm(batch == 1 ? to : 4 * to);
		begin_exec();
		H->run();
		me->in_exec = 0;
		if (!me->have_sample) {
			me->have_sample = 1; me->sample_len = me->len;
			memcpy(me->sample, me->choice, sizeof(uint16_t) * me->len);
		}
		account(me);
		advance(me);
		n++;
		if ((n & 63) == 0 && g_deadline_s > 0 && now_s() - g_t0 > g_deadline_s) { S->deadline_hit = 1; S->stop = 1; }
	}
}

static char *read_tail(const char *path, char *buf, size_t cap)
{
	FILE *f = fopen(path, "r");
	size_t n = 0;
	buf[0] = 0;
	if (!f) return buf;
	n = fread(buf, 1, cap - 1, f);
	buf[n] = 0;
	fclose(f);
	{
		/* lead with the sanitizer's own headline if there is one (it may be preceded by warnings and separator lines) */
		char *e = strstr(buf, "ERROR: ");
		if (!e) e = strstr(buf, "runtime error:");
		if (e && e != buf) memmove(buf, e, strlen(e) + 1);
	}
	return buf;
}

static char g_errfile[256];

static void setup_private_shm(void)
{
	if (unshare(CLONE_NEWNS) != 0 ||
	    mount("none", "/", NULL, MS_REC | MS_PRIVATE, NULL) != 0 ||
	    mount("tmpfs", "/dev/shm", "tmpfs", 0, "size=1g,mode=1777") != 0) {
		fprintf(stderr, "vp: cannot set up private /dev/shm: %s\n", strerror(errno));
		exit(2);
	}
}

/* run a forked child that executes up to 'batch' executions from the slot's plan.
 * returns: 0 ok, 1 failure recorded in slot (failed/crash), 2 broken */
static int run_child(int batch, int timeout_s, char *crashmsg, size_t crashcap)
{
	pid_t pid;
	int status;
	fflush(NULL);
	pid = fork();
	if (pid < 0) { perror("fork"); exit(2); }
	if (pid == 0) {
		int fd = open(g_errfile, O_WRONLY | O_CREAT | O_TRUNC, 0600);
		if (fd >= 0) { dup2(fd, 2); if (!g_replay) dup2(fd, 1); close(fd); }
		(void)timeout_s;
		child_loop(batch);
		_exit(0);
	}
	while (waitpid(pid, &status, 0) < 0 && errno == EINTR) ;
	if (WIFEXITED(status) && WEXITSTATUS(status) == 0) return 0;
	if (WIFEXITED(status) && WEXITSTATUS(status) == EXIT_BROKEN) return 2;
	if (WIFEXITED(status) && WEXITSTATUS(status) == EXIT_FAIL) {
		snprintf(crashmsg, crashcap, "%s", me->msg);
		return 1;
	}
	{
		char tail[3000];
		read_tail(g_errfile, tail, sizeof tail);
		if (WIFSIGNALED(status))
			snprintf(crashmsg, crashcap, "%s (signal %d%s) %s",
				 WTERMSIG(status) == SIGALRM ? "hang: watchdog expired" : "crash",
				 WTERMSIG(status), me->in_exec ? "" : ", outside an execution", tail);
		else
			snprintf(crashmsg, crashcap, "abnormal exit %d: %s", WEXITSTATUS(status), tail);
	}
	return 1;
}

static void record_violation(const char *msg)
{
	int k = __atomic_fetch_add(&S->nviol, 1, __ATOMIC_RELAXED);
	__atomic_add_fetch(&S->nfail, 1, __ATOMIC_RELAXED);
	if (k >= MAXVIOL) { S->nviol = MAXVIOL; S->stop = 1; return; }
	S->viol[k].len = me->len;
	memcpy(S->viol[k].c, me->choice, sizeof(uint16_t) * me->len);
	snprintf(S->viol[k].msg, sizeof S->viol[k].msg, "%s", msg);
	S->viol[k].worker = my_id;
	if (k + 1 >= MAXVIOL) S->stop = 1;
}

static void worker_main(int id)
{
	char crash[4096];
	my_id = id;
	me = &S->slots[id];
	snprintf(g_errfile, sizeof g_errfile, "/tmp/vp-%s-%d-%d.err", H->name, (int)getppid(), id);
	if (H->private_shm) setup_private_shm();
	if (H->setup) H->setup();
	for (;;) {
		int it = __atomic_fetch_add(&S->next_item, 1, __ATOMIC_RELAXED);
		if (it >= S->nitems || S->stop) break;
		me->forced = S->items[it].len;
		me->plan_len = S->items[it].len;
		memcpy(me->plan, S->items[it].c, sizeof(uint16_t) * me->plan_len);
		me->done = 0;
		while (!me->done && !S->stop) {
			int r = run_child(H->batch > 0 ? H->batch : 1, H->timeout_s ? H->timeout_s : 20, crash, sizeof crash);
			if (r == 2) {
				S->broken = 1;
				snprintf(S->broken_msg, sizeof S->broken_msg, "%s", me->msg);
				S->stop = 1;
				break;
			}
			if (r == 1) {
				record_violation(crash);
				account(me);
				advance(me);
			}
			if (g_deadline_s > 0 && now_s() - g_t0 > g_deadline_s) { S->deadline_hit = 1; S->stop = 1; }
		}
	}
	unlink(g_errfile);
	_exit(0);
}

/* run exactly one execution of 'c[0..len)' in an isolated child; fills slot */
static int run_single(const uint16_t *c, int len, int trace, char *crash, size_t cap)
{
	int r;
	me->forced = len; me->plan_len = len; me->done = 0;
	memcpy(me->plan, c, sizeof(uint16_t) * len);
	vp_tracing = trace;
	me->trace_len = 0; me->trace[0] = 0;
	g_single = 1;
	r = run_child(1, H->timeout_s ? 3 * H->timeout_s : 60, crash, cap);
	g_single = 0;
	vp_tracing = 0;
	return r;
}

/* ------------------------------------------------------------------ json */
static void json_str(FILE *f, const char *s)
{
	fputc('"', f);
	for (; *s; s++) {
		unsigned char ch = (unsigned char)*s;
		if (ch == '"' || ch == '\\') { fputc('\\', f); fputc(ch, f); }
		else if (ch == '\n') fputs("\\n", f);
		else if (ch == '\t') fputs("\\t", f);
		else if (ch < 0x20 || ch >= 0x7f) fprintf(f, "\\u%04x", ch);
		else fputc(ch, f);
	}
	fputc('"', f);
}
static void json_lines(FILE *f, const char *text)
{
	const char *p = text;
	int first = 1;
	fputc('[', f);
	while (*p) {
		const char *e = strchr(p, '\n');
		char line[600];
		size_t n = e ? (size_t)(e - p) : strlen(p);
		if (n >= sizeof line) n = sizeof line - 1;
		memcpy(line, p, n); line[n] = 0;
		if (!first) fputc(',', f);
		json_str(f, line);
		first = 0;
		if (!e) break;
		p = e + 1;
	}
	fputc(']', f);
}
static void json_choices(FILE *f, const uint16_t *c, int len)
{
	int i;
	fputc('[', f);
	for (i = 0; i < len; i++) fprintf(f, "%s%d", i ? "," : "", c[i]);
	fputc(']', f);
}

static int parse_choices(const char *file, uint16_t *c, char *params, size_t pcap)
{
	FILE *f = fopen(file, "r");
	char *buf, *p;
	long sz;
	int n = 0;
	if (!f) { fprintf(stderr, "vp: cannot open %s\n", file); return -1; }
	fseek(f, 0, SEEK_END); sz = ftell(f); fseek(f, 0, SEEK_SET);
	buf = malloc(sz + 1);
	if (fread(buf, 1, sz, f) != (size_t)sz) { fclose(f); free(buf); return -1; }
	buf[sz] = 0; fclose(f);
	if (params) {
		params[0] = 0;
		p = strstr(buf, "\"params\": \"");
		if (p) {
			char *e;
			p += 11; e = strchr(p, '"');
			if (e && (size_t)(e - p) < pcap) { memcpy(params, p, e - p); params[e - p] = 0; }
		}
	}
	p = strstr(buf, "\"choices\": [");
	if (!p) { free(buf); return -1; }
	p += 12;
	while (*p && *p != ']') {
		if (*p >= '0' && *p <= '9') { c[n++] = (uint16_t)strtol(p, &p, 10); if (n >= VP_MAXLEN) break; }
		else p++;
	}
	free(buf);
	return n;
}

static void apply_params(char *params)
{
	char *tok = strtok(params, ",");
	while (tok && g_nset < 60) {
		char *eq = strchr(tok, '=');
		if (eq) {
			int i, dup = 0;
			*eq = 0;
			for (i = 0; i < g_nset; i++) if (!strcmp(g_setk[i], tok)) dup = 1;
			if (!dup) { g_setk[g_nset] = strdup(tok); g_setv[g_nset] = atol(eq + 1); g_nset++; }
		}
		tok = strtok(NULL, ",");
	}
}

/* ----------------------------------------------------------------- main */
static void expand_items(void)
{
	/* BFS over prefixes, each probed by one isolated default execution */
	static struct item open[MAXITEMS], leaves[MAXITEMS];
	int head = 0, tail = 0, nleaves = 0, target = g_workers * 24, rounds = 0, i;
	char crash[4096];
	open[tail++].len = 0;
	if (g_workers > 1) {
		while (head < tail && (tail - head) + nleaves < target && rounds < 3000) {
			struct item it = open[head];
			int r, pos = it.len, cost = 0, ar;
			if (it.len >= ITEMLEN - 1) break;
			rounds++;
			r = run_single(it.c, it.len, 0, crash, sizeof crash);
			if (r != 0 || me->len <= pos) {
				head++;
				if (nleaves < MAXITEMS) leaves[nleaves++] = it;
				continue;
			}
			ar = me->arity[pos];
			if (tail + ar >= MAXITEMS) break;
			for (i = 0; i < pos; i++) if (me->choice[i]) cost += me->costnz[i];
			head++;
			for (i = 0; i < ar; i++) {
				if (i > 0 && me->costnz[pos] && g_bound >= 0 && cost + me->costnz[pos] > g_bound) break;
				open[tail] = it;
				open[tail].c[pos] = (uint16_t)i;
				open[tail].len = pos + 1;
				tail++;
			}
		}
	}
	S->nitems = 0;
	for (i = head; i < tail && S->nitems < MAXITEMS; i++) S->items[S->nitems++] = open[i];
	for (i = 0; i < nleaves && S->nitems < MAXITEMS; i++) S->items[S->nitems++] = leaves[i];
}

static void usage(void)
{
	fprintf(stderr, "usage: harness [--tier quick|thorough] [--evidence f] [--replay f] [--workers n]\n"
		"  [--deadline s] [--bound b] [--set k=v] [--known trigger witness what]\n");
	exit(2);
}

int vp_main(int argc, char **argv, const struct vp_harness *h)
{
	int i, w, rc = 0, nconfirmed = 0;
	size_t st_bits, out_bits = 22;
	char crash[4096];
	const char *replays_dir = "/verif/replays";
	uint16_t seq[VP_MAXLEN];
	char sample_text[MAXSAMPLES][6000];
	int nsamples = 0;
	double wall;

	H = h;
	g_t0 = now_s();
	signal(SIGPIPE, SIG_IGN);
	for (i = 1; i < argc; i++) {
		if (!strcmp(argv[i], "--tier") && i + 1 < argc) g_tier = !strcmp(argv[++i], "thorough");
		else if (!strcmp(argv[i], "--evidence") && i + 1 < argc) snprintf(g_evidence, sizeof g_evidence, "%s", argv[++i]);
		else if (!strcmp(argv[i], "--replay") && i + 1 < argc) { snprintf(g_replay_file, sizeof g_replay_file, "%s", argv[++i]); g_replay = 1; }
		else if (!strcmp(argv[i], "--workers") && i + 1 < argc) g_workers = atoi(argv[++i]);
		else if (!strcmp(argv[i], "--deadline") && i + 1 < argc) g_deadline_s = atof(argv[++i]);
		else if (!strcmp(argv[i], "--bound") && i + 1 < argc) g_bound = atoi(argv[++i]);
		else if (!strcmp(argv[i], "--replays-dir") && i + 1 < argc) replays_dir = argv[++i];
		else if (!strcmp(argv[i], "--set") && i + 1 < argc) {
			char *kv = strdup(argv[++i]), *eq = strchr(kv, '=');
			if (!eq) usage();
			*eq = 0; g_setk[g_nset] = kv; g_setv[g_nset] = atol(eq + 1); g_nset++;
		} else if (!strcmp(argv[i], "--known") && i + 1 < argc) {
			/* the front end has already replayed the witness of this finding and seen it fail */
			snprintf(g_known[g_nknown].trig, 64, "%s", argv[++i]);
			g_known[g_nknown].active = 1;
			g_nknown++;
		} else usage();
	}
	if (g_workers < 1) g_workers = 1;
	if (g_workers > MAXW) g_workers = MAXW;
	if (g_deadline_s == 0) g_deadline_s = g_tier ? 1200 : 240;
	setenv("ASAN_OPTIONS", "detect_leaks=0:abort_on_error=0:exitcode=88:allocator_may_return_null=1:detect_stack_use_after_return=0", 0);
	setenv("UBSAN_OPTIONS", "halt_on_error=1:exitcode=88:print_stacktrace=1", 0);
	setenv("TZ", "UTC", 1);

	if (g_replay) {
		char params[1024];
		g_replay_n = parse_choices(g_replay_file, g_replay_seq, params, sizeof params);
		if (g_replay_n < 0) { fprintf(stderr, "vp: bad replay file\n"); return 2; }
		apply_params(params);
	}
	if (H->init) H->init();
	S = mmap(NULL, sizeof *S, PROT_READ | PROT_WRITE, MAP_SHARED | MAP_ANONYMOUS, -1, 0);
	if (S == MAP_FAILED) { perror("mmap"); return 2; }
	st_bits = (size_t)vp_param("state_table_bits", 25, 27);
	T_states = mmap(NULL, sizeof(uint64_t) << st_bits, PROT_READ | PROT_WRITE, MAP_SHARED | MAP_ANONYMOUS | MAP_NORESERVE, -1, 0);
	T_outcomes = mmap(NULL, sizeof(uint64_t) << out_bits, PROT_READ | PROT_WRITE, MAP_SHARED | MAP_ANONYMOUS | MAP_NORESERVE, -1, 0);
	if (T_states == MAP_FAILED || T_outcomes == MAP_FAILED) { perror("mmap tables"); return 2; }
	T_states_mask = ((uint64_t)1 << st_bits) - 1;
	T_outcomes_mask = ((uint64_t)1 << out_bits) - 1;
	me = &S->slots[MAXW];
	my_id = MAXW;
	snprintf(g_errfile, sizeof g_errfile, "/tmp/vp-%s-%d-main.err", H->name, (int)getpid());

	if (g_replay) {
		int n = g_replay_n, r;
		memcpy(seq, g_replay_seq, sizeof seq);
		if (H->private_shm) setup_private_shm();
		if (H->setup) H->setup();
		r = run_single(seq, n, 1, crash, sizeof crash);
		fputs(me->trace, stdout);
		if (r == 1) { printf("REPLAY: FAILS: %s\n", crash); unlink(g_errfile); return 1; }
		if (r == 2) { printf("REPLAY: BROKEN: %s\n", me->msg); unlink(g_errfile); return 2; }
		printf("REPLAY: passes\n");
		unlink(g_errfile);
		return 0;
	}

	/* coordinator work that needs the harness environment runs in a helper child */
	fflush(NULL);
	{
		pid_t pid = fork();
		if (pid == 0) {
			if (H->private_shm) setup_private_shm();
			if (H->setup) H->setup();
			expand_items();
			unlink(g_errfile);
			_exit(0);
		}
		{ int st; waitpid(pid, &st, 0); if (!WIFEXITED(st) || WEXITSTATUS(st)) { fprintf(stderr, "vp: coordinator helper failed\n"); return 2; } }
	}
	fflush(NULL);

	for (w = 0; w < g_workers; w++) {
		pid_t pid = fork();
		if (pid == 0) worker_main(w);
	}
	for (w = 0; w < g_workers; w++) {
		int st;
		pid_t p = wait(&st);
		if (p > 0 && (!WIFEXITED(st) || WEXITSTATUS(st))) {
			S->broken = 1;
			snprintf(S->broken_msg, sizeof S->broken_msg, "worker died (status 0x%x)", st);
		}
	}
	if (S->table_full) fprintf(stderr, "%s: the state table (2^%d entries) filled up: exploration cut there, exhaustive=false\n", H->name, (int)st_bits);

	/* confirm violations by replaying twice, write replay files */
	fflush(NULL);
	{
		pid_t pid = fork();
		if (pid == 0) {
			if (H->private_shm) setup_private_shm();
			if (H->setup) H->setup();
			for (i = 0; i < S->nviol && i < MAXVIOL; i++) {
				char m1[4096], path[600], t1[2000];
				int r1, r2;
				FILE *f;
				r1 = run_single(S->viol[i].c, S->viol[i].len, 1, m1, sizeof m1);
				snprintf(t1, sizeof t1, "%s", me->trace);
				r2 = run_single(S->viol[i].c, S->viol[i].len, 1, crash, sizeof crash);
				if (r1 != 1 || r2 != 1 || strncmp(t1, me->trace, sizeof t1 - 1)) {
					char cs[300]; int k, l = 0;
					for (k = 0; k < S->viol[i].len && l < 280; k++) l += snprintf(cs + l, sizeof cs - l, "%d,", S->viol[i].c[k]);
					S->broken = 1;
					snprintf(S->broken_msg, sizeof S->broken_msg,
						 "failure not reproducible on isolated replay (r1=%d r2=%d) choices=[%s]: %.500s", r1, r2, cs, S->viol[i].msg);
					continue;
				}
				snprintf(path, sizeof path, "%s/%s", replays_dir, H->property);
				mkdir(replays_dir, 0755); mkdir(path, 0755);
				snprintf(path, sizeof path, "%s/%s/%s-%s-%d.json", replays_dir, H->property, H->name, g_tier ? "thorough" : "quick", i);
				f = fopen(path, "w");
				if (f) {
					fprintf(f, "{\n \"property\": \"%s\",\n \"harness\": \"%s\",\n \"tier\": \"%s\",\n \"params\": \"%s\",\n \"choices\": ",
						H->property, H->name, g_tier ? "thorough" : "quick", g_params_used);
					json_choices(f, S->viol[i].c, S->viol[i].len);
					fprintf(f, ",\n \"message\": "); json_str(f, m1);
					fprintf(f, ",\n \"trace\": "); json_lines(f, me->trace);
					fprintf(f, "\n}\n");
					fclose(f);
				}
				S->nconfirmed += 1;
				printf("VIOLATION property=%s replay=%s\n", H->property, path);
				printf("  %.*s\n", 700, m1);
			}
			fflush(NULL);
			unlink(g_errfile);
			_exit(0);
		}
		{ int st; waitpid(pid, &st, 0); }
		nconfirmed = S->nconfirmed;
	}

	/* samples: replay a few recorded executions with tracing */
	fflush(NULL);
	{
		int pfd[2];
		if (pipe(pfd) == 0) {
			pid_t pid = fork();
			if (pid == 0) {
				close(pfd[0]);
				if (H->private_shm) setup_private_shm();
				if (H->setup) H->setup();
				for (w = 0, i = 0; w < g_workers && i < MAXSAMPLES; w++) {
					struct slot *s = &S->slots[w];
					char buf[6000];
					if (!s->have_sample) continue;
					if (run_single(s->sample, s->sample_len, 1, crash, sizeof crash) != 0) continue;
					memset(buf, 0, sizeof buf);
					snprintf(buf, sizeof buf, "%s", me->trace);
					if (write(pfd[1], buf, sizeof buf) != sizeof buf) break;
					i++;
				}
				unlink(g_errfile);
				_exit(0);
			}
			close(pfd[1]);
			while (nsamples < MAXSAMPLES) {
				size_t got = 0;
				ssize_t n;
				while (got < sizeof sample_text[0] && (n = read(pfd[0], sample_text[nsamples] + got, sizeof sample_text[0] - got)) > 0) got += n;
				if (got < sizeof sample_text[0]) break;
				sample_text[nsamples][sizeof sample_text[0] - 1] = 0;
				nsamples++;
			}
			close(pfd[0]);
			{ int st; waitpid(pid, &st, 0); }
		}
	}

	wall = now_s() - g_t0;
	if (S->broken) rc = 2;
	else if (nconfirmed > 0) rc = 1;
	else if (S->nviol > 0) rc = 2;

	printf("%s %s: executions=%llu choices=%llu states=%llu outcomes=%llu pruned=%llu merged=%llu maxlen=%llu items=%d "
	       "violations=%d exhaustive=%s wall=%.1fs params=%s\n",
	       H->property, H->name, (unsigned long long)S->execs, (unsigned long long)S->transitions,
	       (unsigned long long)S->states, (unsigned long long)S->outcomes, (unsigned long long)S->pruned,
	       (unsigned long long)S->merged, (unsigned long long)S->maxlen, S->nitems, nconfirmed,
	       (S->deadline_hit || S->stop) ? "false" : "true", wall, g_params_used);
	if (S->broken) printf("BROKEN: %s\n", S->broken_msg);

	if (g_evidence[0]) {
		FILE *f = fopen(g_evidence, "w");
		if (!f) { perror(g_evidence); return 2; }
		fprintf(f, "{\n \"property_id\": \"%s\",\n \"harness\": \"%s\",\n \"tier\": \"%s\",\n \"seed\": 0,\n \"level\": \"%s\",\n",
			H->property, H->name, g_tier ? "thorough" : "quick", H->level);
		fprintf(f, " \"coverage\": {\n");
		fprintf(f, "  \"evaluations\": %llu,\n", (unsigned long long)S->execs);
		fprintf(f, "  \"distinct_nontrivial\": %llu,\n", (unsigned long long)S->outcomes);
		fprintf(f, "  \"states\": %llu,\n", (unsigned long long)(S->states ? S->states : S->outcomes));
		fprintf(f, "  \"transitions\": %llu,\n", (unsigned long long)S->transitions);
		fprintf(f, "  \"traces_validated_against_impl\": %llu,\n", (unsigned long long)S->execs);
		fprintf(f, "  \"distinct_outcomes\": %llu,\n", (unsigned long long)S->outcomes);
		fprintf(f, "  \"pruned_by_known_finding_or_cut\": %llu,\n", (unsigned long long)S->pruned);
		fprintf(f, "  \"merged_on_state_key\": %llu,\n", (unsigned long long)S->merged);
		fprintf(f, "  \"max_choices_in_one_execution\": %llu,\n", (unsigned long long)S->maxlen);
		fprintf(f, "  \"deviation_bound\": %d,\n", g_bound);
		fprintf(f, "  \"params\": \"%s\",\n", g_params_used);
		for (i = 0; i < 15; i++) if (g_user_names[i]) fprintf(f, "  \"%s\": %llu,\n", g_user_names[i], (unsigned long long)S->user[i]);
		fprintf(f, "  \"rule\": "); json_str(f, H->rule ? H->rule : ""); fprintf(f, ",\n");
		fprintf(f, "  \"exhaustive\": %s,\n", (S->deadline_hit || S->stop) ? "false" : "true");
		fprintf(f, "  \"samples\": [");
		for (i = 0; i < nsamples; i++) { if (i) fputc(',', f); json_lines(f, sample_text[i]); }
		if (!nsamples) fprintf(f, "\"(no sample could be rendered)\"");
		fprintf(f, "]\n },\n \"assumptions\": [");
		for (i = 0; i < 12 && H->assumptions[i]; i++) { if (i) fputc(',', f); json_str(f, H->assumptions[i]); }
		fprintf(f, "],\n \"wall_s\": %.2f,\n \"violations\": %d,\n \"known_findings_active\": [", wall, nconfirmed);
		{ int first = 1; for (i = 0; i < g_nknown; i++) if (g_known[i].active) { if (!first) fputc(',', f); json_str(f, g_known[i].trig); first = 0; } }
		fprintf(f, "]\n}\n");
		fclose(f);
	}
	unlink(g_errfile);
	return rc;
}
