/* force-included into TSan-ABI instrumented libqb translation units: the -Dmemcpy=vp_memcpy etc.
 * redirections on the command line need prototypes before any use */
#ifndef VP_REDIRECT_H
#define VP_REDIRECT_H
#include <stddef.h>
void *vp_memcpy(void *d, const void *s, size_t n);
void *vp_memset(void *d, int c, size_t n);
void *vp_malloc(size_t n);
void *vp_calloc(size_t a, size_t b);
void *vp_realloc(void *p, size_t n);
void vp_free(void *p);
#endif
