/* Deterministic coroutine scheduler: ucontext coroutines on one OS thread, every switch is an
 * explorer choice (switching away from a still runnable coroutine costs one preemption). */
#define _GNU_SOURCE
#include "vp_sched.h"
#include <ucontext.h>
#include <stdio.h>
#include <stdlib.h>
#include <string.h>
#include <errno.h>
#include <pthread.h>
#include <semaphore.h>
#include <sys/mman.h>

#define STACK_MAX (1024 * 1024)
size_t vp_stack_size = 256 * 1024;
#define STACK_SIZE vp_stack_size

#if defined(__has_feature)
# if __has_feature(address_sanitizer)
#  define VP_ASAN 1
# endif
#endif
#ifdef VP_ASAN
void __sanitizer_start_switch_fiber(void **fake_stack_save, const void *bottom, size_t size);
void __sanitizer_finish_switch_fiber(void *fake_stack_save, const void **bottom_old, size_t *size_old);
void *__asan_region_is_poisoned(void *beg, size_t size);
#endif

enum { CO_FREE, CO_RUNNABLE, CO_BLOCKED, CO_DONE };
struct co {
	ucontext_t ctx;
	char *stack;
	int st;
	void (*fn)(void *); void *arg;
	const char *name;
	int (*ready)(void *); void *ready_arg; const char *blocked_on;
	uint64_t local;
	void *fake_stack;
	int saved_errno;
};
static struct co CO[VP_MAXCO];
static int nco, cur = -1, aborted, main_errno;
static ucontext_t main_ctx;
static void *main_fake_stack;
static const void *main_stack_bottom; static size_t main_stack_size;
static uint64_t (*state_fn)(void);
int vp_sched_active;
int vp_blocked_switch_cost;  /* 1: when the running coroutine blocks, taking any but the first enabled one counts as a deviation */
int vp_free_yield_cost;     /* 1: switching away at a voluntary yield point counts as a deviation too (context bounding) */
int vp_sync_points = 1;      /* lock/unlock/trylock are scheduling points (switch off where locks are never contended) */
void (*vp_atomic_hook)(const volatile void *addr, int is_store, int mo);
int (*vp_access_filter)(const volatile void *addr, int size, int is_write);
uint64_t (*vp_value_canon)(uint64_t v);
int (*vp_idle_hook)(void);                  /* nobody can run: may advance virtual time; returns 1 if something changed */
void (*vp_switch_hook)(int from, int to);   /* called right before control moves to another coroutine (or main, -1) */

void vp_set_state_fn(uint64_t (*fn)(void)) { state_fn = fn; }
int vp_co_self(void) { return cur; }
int vp_co_done(int id) { return CO[id].st == CO_DONE; }
int vp_co_others_idle(void) { int i; for (i = 0; i < nco; i++) if (i != cur && CO[i].st == CO_RUNNABLE) return 0; return 1; }
const char *vp_co_name(int id) { return id < 0 ? "main" : CO[id].name; }
void vp_local_mix(uint64_t v) { if (cur >= 0) CO[cur].local = vp_hash(&v, 8, CO[cur].local); }
void vp_local_reset(uint64_t pc) { if (cur >= 0) CO[cur].local = pc * 0x9e3779b97f4a7c15ULL + 1; }
uint64_t vp_local_hash(int id) { return CO[id].local; }

void vp_sched_reset(void)
{
	int i;
	for (i = 0; i < VP_MAXCO; i++) { CO[i].st = CO_FREE; CO[i].local = 0; CO[i].ready = NULL; }
	nco = 0; cur = -1; aborted = 0; vp_sched_active = 0; vp_sync_points = 1; vp_free_yield_cost = 0; vp_blocked_switch_cost = 0;
	vp_sync_reset();
}

static void switch_to(int to)
{
	int from = cur;
	ucontext_t *fc = from < 0 ? &main_ctx : &CO[from].ctx;
	ucontext_t *tc = to < 0 ? &main_ctx : &CO[to].ctx;
	void **fsave = from < 0 ? &main_fake_stack : &CO[from].fake_stack;
	if (from == to) return;
	if (vp_switch_hook) vp_switch_hook(from, to);
	if (from >= 0) CO[from].saved_errno = errno; else main_errno = errno;
	cur = to;
#ifdef VP_ASAN
	/* a finished coroutine never comes back: tell ASan to drop its fake stack */
	__sanitizer_start_switch_fiber((from >= 0 && CO[from].st == CO_DONE) ? NULL : fsave,
				       to < 0 ? main_stack_bottom : CO[to].stack, to < 0 ? main_stack_size : STACK_SIZE);
#endif
	swapcontext(fc, tc);
#ifdef VP_ASAN
	{
		const void *ob; size_t os;
		__sanitizer_finish_switch_fiber(from < 0 ? main_fake_stack : CO[from].fake_stack, &ob, &os);
		(void)ob; (void)os;
	}
#endif
	errno = from >= 0 ? CO[from].saved_errno : main_errno;   /* errno is per thread */
}

void vp_co_exit(void);
static void trampoline(void)
{
	int id = cur;
#ifdef VP_ASAN
	{
		const void *ob; size_t os;
		__sanitizer_finish_switch_fiber(NULL, &ob, &os);
		if (!main_stack_bottom) { main_stack_bottom = ob; main_stack_size = os; }
	}
#endif
	errno = 0;
	CO[id].fn(CO[id].arg);
	vp_co_exit();
}

int vp_co_spawn(void (*fn)(void *), void *arg, const char *name)
{
	int id = nco;
	if (nco >= VP_MAXCO) vp_broken("too many coroutines");
	if (!CO[id].stack) {
		CO[id].stack = mmap(NULL, STACK_MAX, PROT_READ | PROT_WRITE, MAP_PRIVATE | MAP_ANONYMOUS, -1, 0);
		if (CO[id].stack == MAP_FAILED) vp_broken("stack mmap failed");
	}
	getcontext(&CO[id].ctx);
	CO[id].ctx.uc_stack.ss_sp = CO[id].stack;
	CO[id].ctx.uc_stack.ss_size = STACK_SIZE;
	CO[id].ctx.uc_link = NULL;
	makecontext(&CO[id].ctx, trampoline, 0);
	CO[id].fn = fn; CO[id].arg = arg; CO[id].name = name;
	CO[id].st = CO_RUNNABLE; CO[id].local = 0; CO[id].fake_stack = NULL; CO[id].ready = NULL; CO[id].saved_errno = 0;
	nco++;
	return id;
}

static uint64_t full_key(void)
{
	uint64_t k = state_fn ? state_fn() : 0;
	int i;
	for (i = 0; i < nco; i++) {
		uint64_t t[3] = { CO[i].local, (uint64_t)CO[i].st, (uint64_t)(i == cur) };
		k = vp_hash(t, sizeof t, k);
	}
	return k;
}

/* pick who runs next; the caller's own status (runnable / blocked) is already set */
static void reschedule(int cost_if_self_enabled, const char *tag)
{
	int en[VP_MAXCO], n = 0, i, c, self = cur, self_enabled;
	if (state_fn && !vp_replaying() && vp_visited(full_key())) { aborted = 1; switch_to(-1); vp_broken("aborted coroutine resumed"); }
again:
	n = 0;
	self_enabled = (self >= 0 && CO[self].st == CO_RUNNABLE);
	if (self_enabled) en[n++] = self;
	for (i = 0; i < nco; i++) {
		if (i == self) continue;
		if (CO[i].st == CO_RUNNABLE) en[n++] = i;
		else if (CO[i].st == CO_BLOCKED && CO[i].ready(CO[i].ready_arg)) en[n++] = i;
	}
	if (self >= 0 && !self_enabled && CO[self].st == CO_BLOCKED && CO[self].ready(CO[self].ready_arg)) {
		/* the condition this coroutine waits for holds already (e.g. its deadline passed) */
		en[n++] = self;
	}
	if (n == 0 && vp_idle_hook && vp_idle_hook()) goto again;
	if (n == 0) {
		char msg[400]; int l = 0;
		for (i = 0; i < nco; i++) if (CO[i].st == CO_BLOCKED) l += snprintf(msg + l, sizeof msg - l, " %s waits for %s;", CO[i].name, CO[i].blocked_on);
		vp_fail("deadlock: no coroutine can run:%s", msg);
	}
	c = n > 1 ? vp_cost_choose(n, self_enabled ? cost_if_self_enabled : vp_blocked_switch_cost, tag) : 0;
	if (CO[en[c]].st == CO_BLOCKED) CO[en[c]].st = CO_RUNNABLE;
	if (en[c] != self) {
		if (vp_tracing) vp_logf("    -> switch to %s", CO[en[c]].name);
		switch_to(en[c]);
	}
}

void vp_point(const char *tag)
{
	if (cur < 0 || !vp_sched_active) return;
	reschedule(1, tag);
}
void vp_yield_free(const char *tag)
{
	if (cur < 0 || !vp_sched_active) return;
	reschedule(vp_free_yield_cost, tag);
}

void vp_block(int (*ready)(void *), void *arg, const char *what)
{
	if (cur < 0) {
		/* main context cannot block: the condition must already hold */
		if (!ready(arg)) vp_fail("main context would block for ever on %s", what);
		return;
	}
	while (!ready(arg)) {
		CO[cur].st = CO_BLOCKED; CO[cur].ready = ready; CO[cur].ready_arg = arg; CO[cur].blocked_on = what;
		reschedule(0, what);
	}
}

/* the running coroutine ends here (pthread_exit) */
void vp_co_exit(void)
{
	int id = cur;
	if (id < 0) vp_broken("vp_co_exit outside a coroutine");
	CO[id].st = CO_DONE;
	for (;;) {
		int en[VP_MAXCO], n = 0, i, c;
		for (i = 0; i < nco; i++) {
			if (CO[i].st == CO_RUNNABLE) en[n++] = i;
			else if (CO[i].st == CO_BLOCKED && CO[i].ready(CO[i].ready_arg)) en[n++] = i;
		}
		if (n == 0 && vp_idle_hook) {
			int live = 0;
			for (i = 0; i < nco; i++) live += CO[i].st == CO_BLOCKED;
			if (live && vp_idle_hook()) continue;
		}
		if (n == 0) switch_to(-1);
		else {
			c = n > 1 ? vp_cost_choose(n, vp_blocked_switch_cost, "next after exit") : 0;
			if (CO[en[c]].st == CO_BLOCKED) CO[en[c]].st = CO_RUNNABLE;
			switch_to(en[c]);
		}
		vp_broken("finished coroutine resumed");
	}
}

/* the coroutine stops existing at the point where it is (process death): it is never resumed */
void vp_co_kill(int id)
{
	if (id == cur) vp_co_exit();
	if (id >= 0 && id < nco) CO[id].st = CO_DONE;
}

void vp_co_abort(void)
{
	aborted = 1;
	if (cur >= 0) { switch_to(-1); vp_broken("aborted coroutine resumed"); }
}

int vp_co_run(void)
{
	int en[VP_MAXCO], n = 0, i, c;
	vp_sched_active = 1;
	for (i = 0; i < nco; i++) if (CO[i].st == CO_RUNNABLE) en[n++] = i;
	if (n == 0) { vp_sched_active = 0; return 0; }
	c = n > 1 ? vp_cost_choose(n, 0, "first") : 0;
	switch_to(en[c]);
	vp_sched_active = 0;
	if (aborted) return 1;
	for (i = 0; i < nco; i++) if (CO[i].st != CO_DONE) {
		char msg[400]; int l = 0, j;
		for (j = 0; j < nco; j++) if (CO[j].st == CO_BLOCKED) l += snprintf(msg + l, sizeof msg - l, " %s waits for %s;", CO[j].name, CO[j].blocked_on);
		vp_fail("deadlock: returned to main with unfinished coroutines:%s", msg);
	}
	return 0;
}

/* ------------------------------------------------------------------ access hook (TSan ABI) */
void vp_access(const volatile void *addr, int size, int is_write)
{
	char probe;
	if (cur < 0 || !vp_sched_active) return;
	/* own stack: invisible */
	if ((char *)addr >= CO[cur].stack && (char *)addr < CO[cur].stack + STACK_SIZE) return;
	(void)probe;
	if ((const volatile void *)__errno_location() == addr) return;     /* thread-local */
	if (vp_access_filter && !vp_access_filter(addr, size, is_write)) return;
	reschedule(1, is_write ? "w" : "r");
#ifdef VP_ASAN
	/* the access is about to happen now: it must not hit memory that another coroutine freed meanwhile */
	if (__asan_region_is_poisoned((void *)addr, (size_t)size))
		vp_fail("%s %s %d bytes at %p: freed (or out-of-bounds) memory -- use after free in the instrumented unit",
			vp_co_name(cur), is_write ? "writes" : "reads", size, (void *)addr);
#endif
	if (!is_write) {
		uint64_t v = 0;
		memcpy(&v, (const void *)addr, size > 8 ? 8 : size);
		if (size == 8 && vp_value_canon) v = vp_value_canon(v);
		vp_local_mix(v ^ ((uint64_t)size << 56));
	} else vp_local_mix(0x77 + size);
}

/* ------------------------------------------------------------------ wrapped synchronisation */
#define MAXSYNC 64
static struct { void *addr; int owner; int kind; } LK[MAXSYNC];
static int nlk;
static void th_reset(void);
void vp_sync_reset(void) { nlk = 0; th_reset(); }
static int lk_find(void *a)
{
	int i;
	for (i = 0; i < nlk; i++) if (LK[i].addr == a) return i;
	if (nlk >= MAXSYNC) vp_broken("too many locks");
	LK[nlk].addr = a; LK[nlk].owner = -2; nlk++;
	return nlk - 1;
}
static int lk_free(void *a) { return LK[lk_find(a)].owner == -2; }

static int do_lock(void *m, const char *what)
{
	int i;
	if (!m) vp_fail("lock operation on a NULL lock");
	if (vp_sync_points) vp_point(what);
	i = lk_find(m);
	if (LK[i].owner == cur && cur >= 0) vp_fail("deadlock: %s locks a lock it already holds", vp_co_name(cur));
	vp_block(lk_free, m, what);
	LK[lk_find(m)].owner = cur;
	vp_local_mix(1);
	return 0;
}
static int do_trylock(void *m)
{
	int i;
	if (!m) vp_fail("trylock on a NULL lock");
	if (vp_sync_points) vp_point("trylock");
	i = lk_find(m);
	if (LK[i].owner != -2) { vp_local_mix(2); return EBUSY; }
	LK[i].owner = cur; vp_local_mix(1);
	return 0;
}
static int do_unlock(void *m)
{
	int i;
	if (!m) vp_fail("unlock of a NULL lock");
	if (vp_sync_points) vp_point("unlock");
	i = lk_find(m);
	if (LK[i].owner == -2) vp_fail("unlock of a lock that is not held");
	LK[i].owner = -2;
	return 0;
}

int __wrap_pthread_mutex_lock(pthread_mutex_t *m);
int __wrap_pthread_mutex_trylock(pthread_mutex_t *m);
int __wrap_pthread_mutex_unlock(pthread_mutex_t *m);
int __wrap_pthread_spin_lock(pthread_spinlock_t *m);
int __wrap_pthread_spin_trylock(pthread_spinlock_t *m);
int __wrap_pthread_spin_unlock(pthread_spinlock_t *m);
int __wrap_pthread_mutex_lock(pthread_mutex_t *m) { return do_lock(m, "mutex"); }
int __wrap_pthread_mutex_trylock(pthread_mutex_t *m) { return do_trylock(m); }
int __wrap_pthread_mutex_unlock(pthread_mutex_t *m) { return do_unlock(m); }
int __wrap_pthread_spin_lock(pthread_spinlock_t *m) { return do_lock((void *)m, "spinlock"); }
int __wrap_pthread_spin_trylock(pthread_spinlock_t *m) { return do_trylock((void *)m); }
int __wrap_pthread_spin_unlock(pthread_spinlock_t *m) { return do_unlock((void *)m); }

/* semaphores: the count lives in the real sem_t (a process-shared semaphore of a ring is mapped at
 * two addresses); only waiting is turned into a scheduler block */
int __real_sem_trywait(sem_t *s);
int __real_sem_post(sem_t *s);
int __real_sem_getvalue(sem_t *s, int *v);
static int sem_ready(void *s) { int v = 0; __real_sem_getvalue(s, &v); return v > 0; }
int __wrap_sem_wait(sem_t *s);
int __wrap_sem_trywait(sem_t *s);
int __wrap_sem_post(sem_t *s);
int __wrap_sem_wait(sem_t *s)
{
	vp_point("sem_wait");
	for (;;) {
		vp_block(sem_ready, s, "semaphore");
		if (__real_sem_trywait(s) == 0) { vp_local_mix(3); return 0; }
	}
}
int __wrap_sem_trywait(sem_t *s)
{
	int r;
	vp_point("sem_trywait");
	r = __real_sem_trywait(s);
	vp_local_mix(r == 0 ? 3 : 4);
	return r;
}
int __wrap_sem_post(sem_t *s)
{
	vp_point("sem_post");
	return __real_sem_post(s);
}
int __wrap_sem_getvalue(sem_t *s, int *v);
int __wrap_sem_getvalue(sem_t *s, int *v)
{
	int r;
	vp_point("sem_getvalue");
	r = __real_sem_getvalue(s, v);
	vp_local_mix(0x100 + (uint64_t)*v);
	return r;
}

/* ------------------------------------------------------------------ threads as coroutines */
static struct { void *(*fn)(void *); void *arg; int co; } TH[VP_MAXCO];
static int nth;
static void th_entry(void *p) { int i = (int)(intptr_t)p; TH[i].fn(TH[i].arg); }
int __wrap_pthread_create(pthread_t *tid, const pthread_attr_t *attr, void *(*fn)(void *), void *arg);
int __wrap_pthread_join(pthread_t tid, void **ret);
void __wrap_pthread_exit(void *ret) __attribute__((noreturn));
int __wrap_pthread_create(pthread_t *tid, const pthread_attr_t *attr, void *(*fn)(void *), void *arg)
{
	int i;
	(void)attr;
	if (!vp_sched_active && cur < 0) vp_broken("pthread_create outside the scheduler");
	/* thread slots are per execution: slot i is valid when its coroutine id is below nco */
	for (i = 0; i < nth; i++) if (TH[i].co >= nco) break;
	if (i == nth) { if (nth >= VP_MAXCO) vp_broken("too many threads"); nth++; }
	TH[i].fn = fn; TH[i].arg = arg;
	TH[i].co = vp_co_spawn(th_entry, (void *)(intptr_t)i, "thread");
	*tid = (pthread_t)(0x7000 + TH[i].co);
	vp_point("pthread_create");
	return 0;
}
static int co_done_pred(void *p) { return CO[(int)(intptr_t)p].st == CO_DONE; }
int __wrap_pthread_join(pthread_t tid, void **ret)
{
	int co = (int)((long)tid - 0x7000);
	if (co < 0 || co >= nco) vp_fail("pthread_join of an unknown thread id");
	if (ret) *ret = NULL;
	vp_point("pthread_join");
	vp_block(co_done_pred, (void *)(intptr_t)co, "thread exit");
	return 0;
}
void __wrap_pthread_exit(void *ret) { (void)ret; vp_co_exit(); for (;;) ; }

/* rwlocks: writer flag + reader count per address */
static struct { void *addr; int readers, writer; } RW[MAXSYNC];
static int nrw;
static int rw_find(void *a)
{
	int i;
	for (i = 0; i < nrw; i++) if (RW[i].addr == a) return i;
	if (nrw >= MAXSYNC) vp_broken("too many rwlocks");
	RW[nrw].addr = a; RW[nrw].readers = 0; RW[nrw].writer = 0; nrw++;
	return nrw - 1;
}
static int rw_can_read(void *a) { return !RW[rw_find(a)].writer; }
static int rw_can_write(void *a) { int i = rw_find(a); return !RW[i].writer && RW[i].readers == 0; }
int __wrap_pthread_rwlock_rdlock(pthread_rwlock_t *l);
int __wrap_pthread_rwlock_wrlock(pthread_rwlock_t *l);
int __wrap_pthread_rwlock_unlock(pthread_rwlock_t *l);
int __wrap_pthread_rwlock_rdlock(pthread_rwlock_t *l) { vp_point("rdlock"); vp_block(rw_can_read, l, "rwlock(read)"); RW[rw_find(l)].readers++; return 0; }
int __wrap_pthread_rwlock_wrlock(pthread_rwlock_t *l) { vp_point("wrlock"); vp_block(rw_can_write, l, "rwlock(write)"); RW[rw_find(l)].writer = 1; return 0; }
int __wrap_pthread_rwlock_unlock(pthread_rwlock_t *l)
{
	int i;
	vp_point("rwunlock");
	i = rw_find(l);
	if (RW[i].writer) RW[i].writer = 0;
	else if (RW[i].readers > 0) RW[i].readers--;
	else vp_fail("unlock of an rwlock that is not held");
	return 0;
}
static void th_reset(void) { nth = 0; nrw = 0; }
